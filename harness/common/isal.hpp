// Access to the library under test: public headers, by-name symbol lookup (every family
// entry point is an exported symbol of the static archive), host CPU feature probing and the
// hash-family descriptors shared by C01/C06/C08/C11/C15/C19/C20.
#pragma once
#include <cpuid.h>
#include <cstddef>
#include <cstdint>
#include <cstring>
#include <initializer_list>
#include <string>
#include <vector>

extern "C" {
#include "aes_cbc.h"
#include "aes_gcm.h"
#include "aes_keyexp.h"
#include "aes_xts.h"
#include "isal_crypto_api.h"
#include "md5_mb.h"
#include "mh_sha1.h"
#include "mh_sha1_murmur3_x64_128.h"
#include "mh_sha256.h"
#include "multi_buffer.h"
#include "rolling_hashx.h"
#include "sha1_mb.h"
#include "sha256_mb.h"
#include "sha512_mb.h"
#include "sm3_mb.h"
}

struct SymEnt {
        const char *name;
        void *addr;
        int is_func;
};
extern const SymEnt isal_symtab[];
extern const size_t isal_symtab_n;

namespace isal {

static inline void *sym(const std::string &name)
{
        size_t lo = 0, hi = isal_symtab_n;
        while (lo < hi) {
                size_t mid = (lo + hi) / 2;
                int c = strcmp(isal_symtab[mid].name, name.c_str());
                if (c == 0) return isal_symtab[mid].addr;
                if (c < 0) lo = mid + 1;
                else hi = mid;
        }
        return nullptr;
}

// Library calls of the shared executors go through this hook, so that C19/C20 can route the same operations through the
// register-capturing trampoline (default: a plain call).
typedef uint64_t (*invoke_fn)(void *fn, const uint64_t *args, int nargs);
static invoke_fn g_invoke = nullptr;
static inline uint64_t call_fn(void *fn, std::initializer_list<uint64_t> a)
{
        uint64_t v[10] = { 0 };
        int n = 0;
        for (uint64_t x : a) v[n++] = x;
        if (g_invoke) return g_invoke(fn, v, n);
        typedef uint64_t (*f10)(uint64_t, uint64_t, uint64_t, uint64_t, uint64_t, uint64_t, uint64_t, uint64_t, uint64_t, uint64_t);
        return ((f10) fn)(v[0], v[1], v[2], v[3], v[4], v[5], v[6], v[7], v[8], v[9]);
}

// ---------------------------------------------------------------- host CPU
struct Cpu {
        bool sse41 = false, sse42 = false, aesni = false, pclmul = false, avx = false, avx2 = false, avx512 = false, shani = false, vaes = false,
             vpclmul = false, avx512_g2 = false, gfni = false;
        Cpu()
        {
                unsigned a, b, c, d;
                __cpuid(1, a, b, c, d);
                sse41 = c & (1 << 19);
                sse42 = c & (1 << 20);
                aesni = c & (1 << 25);
                pclmul = c & (1 << 1);
                bool osxsave = c & (1 << 27);
                bool avxbit = c & (1 << 28);
                uint64_t xcr0 = 0;
                if (osxsave) {
                        unsigned lo, hi;
                        __asm__ volatile("xgetbv" : "=a"(lo), "=d"(hi) : "c"(0));
                        xcr0 = ((uint64_t) hi << 32) | lo;
                }
                avx = avxbit && (xcr0 & 6) == 6;
                __cpuid_count(7, 0, a, b, c, d);
                avx2 = avx && (b & (1 << 5));
                bool f = b & (1 << 16), dq = b & (1 << 17), cd = b & (1 << 28), bw = b & (1 << 30), vl = b & (1u << 31);
                avx512 = avx2 && f && dq && cd && bw && vl && (xcr0 & 0xe0) == 0xe0;
                shani = b & (1 << 29);
                vaes = c & (1 << 9);
                vpclmul = c & (1 << 10);
                gfni = c & (1 << 8);
                bool vbmi2 = c & (1 << 6), vnni = c & (1 << 11), bitalg = c & (1 << 12), popcnt = c & (1 << 14);
                avx512_g2 = avx512 && vaes && vpclmul && gfni && vbmi2 && vnni && bitalg && popcnt;
        }
};
static inline const Cpu &cpu()
{
        static const Cpu c;
        return c;
}
// Can the host execute code of family `fam` (name suffix of the entry points)?
static inline bool host_can_run(const std::string &fam)
{
        const Cpu &c = cpu();
        if (fam == "base" || fam == "isal" || fam == "legacy" || fam == "dispatch") return true;
        if (fam == "sse" || fam == "sb_sse4" || fam == "00" || fam == "x4" || fam == "x8") return c.sse42;
        if (fam == "sse_ni") return c.sse42 && c.shani;
        if (fam == "avx" || fam == "avx_gen2") return c.avx;
        if (fam == "avx2" || fam == "avx_gen4" || fam == "04") return c.avx2;
        if (fam == "avx512") return c.avx512;
        if (fam == "avx512_ni") return c.avx512 && c.shani;
        if (fam == "vaes" || fam == "vaes_avx512") return c.avx512_g2;
        return false;
}

// ---------------------------------------------------------------- hash families
enum Algo { SHA1 = 0, SHA256 = 1, SHA512 = 2, MD5 = 3, SM3 = 4, NALGO = 5 };

struct AlgoDesc {
        const char *name;
        unsigned block, digest_bytes;
        size_t ctx_size, mgr_size;
        size_t off_digest, off_status, off_error, off_total, off_user, off_pblen, off_pb, off_job_status, off_job_buffer, off_job_len,
                off_incoming, off_incoming_len;
        unsigned max_lanes;
};
#define ISAL_ALGO_DESC(NAME, CTX, MGR, BLK, DB, ML)                                                                                       \
        { NAME, BLK, DB, sizeof(CTX), sizeof(MGR), offsetof(CTX, job.result_digest), offsetof(CTX, status), offsetof(CTX, error),         \
          offsetof(CTX, total_length), offsetof(CTX, user_data), offsetof(CTX, partial_block_buffer_length),                              \
          offsetof(CTX, partial_block_buffer), offsetof(CTX, job.status), offsetof(CTX, job.buffer), offsetof(CTX, job.len),             \
          offsetof(CTX, incoming_buffer), offsetof(CTX, incoming_buffer_length), ML }
static const AlgoDesc algo_desc[NALGO] = {
        ISAL_ALGO_DESC("sha1", ISAL_SHA1_HASH_CTX, ISAL_SHA1_HASH_CTX_MGR, 64, 20, ISAL_SHA1_MAX_LANES),
        ISAL_ALGO_DESC("sha256", ISAL_SHA256_HASH_CTX, ISAL_SHA256_HASH_CTX_MGR, 64, 32, ISAL_SHA256_MAX_LANES),
        ISAL_ALGO_DESC("sha512", ISAL_SHA512_HASH_CTX, ISAL_SHA512_HASH_CTX_MGR, 128, 64, ISAL_SHA512_MAX_LANES),
        ISAL_ALGO_DESC("md5", ISAL_MD5_HASH_CTX, ISAL_MD5_HASH_CTX_MGR, 64, 16, ISAL_MD5_MAX_LANES),
        ISAL_ALGO_DESC("sm3", ISAL_SM3_HASH_CTX, ISAL_SM3_HASH_CTX_MGR, 64, 32, ISAL_SM3_MAX_LANES),
};

typedef void (*hash_init_fn)(void *mgr);
typedef void *(*hash_submit_fn)(void *mgr, void *ctx, const void *buf, uint32_t len, int flags);
typedef void *(*hash_flush_fn)(void *mgr);
typedef int (*isal_init_fn)(void *mgr);
typedef int (*isal_submit_fn)(void *mgr, void *ctx, void **out, const void *buf, uint32_t len, int flags);
typedef int (*isal_flush_fn)(void *mgr, void **out);

struct HashFamily {
        int algo;
        std::string fam; // "sse", "avx2", ..., "base", "sb_sse4", "legacy" (deprecated dispatcher), "isal" (public API)
        hash_init_fn init = nullptr;
        hash_submit_fn submit = nullptr;
        hash_flush_fn flush = nullptr;
        isal_init_fn i_init = nullptr;
        isal_submit_fn i_submit = nullptr;
        isal_flush_fn i_flush = nullptr;
        int lanes = 0; // documented number of lanes; 0 = synchronous; -1 = unknown (bounded by max_lanes)
        bool runnable = true;
        std::string label() const { return std::string(algo_desc[algo].name) + "/" + fam; }
        bool is_isal() const { return fam == "isal"; }
};

// Documented lane counts (headers: "up to 4 ... (or 8 in the AVX2 case, 16 in the AVX512)"; SHA-512 2/2/4/8;
// MD5 8/8/16/32; *_ni: 2 (sse_ni), 16 (avx512_ni); base and sb_sse4 process synchronously).
static inline int documented_lanes(int algo, const std::string &fam)
{
        if (fam == "base" || fam == "sb_sse4") return 0;
        if (fam == "legacy" || fam == "isal") return -1; // whichever family the dispatcher picked
        int mul = algo == MD5 ? 2 : 1;
        if (algo == SHA512) {
                if (fam == "sse" || fam == "avx") return 2;
                if (fam == "avx2") return 4;
                if (fam == "avx512") return 8;
                return -1;
        }
        if (fam == "sse" || fam == "avx") return 4 * mul;
        if (fam == "avx2") return 8 * mul;
        if (fam == "avx512" || fam == "avx512_ni") return 16 * mul;
        if (fam == "sse_ni") return algo == SHA1 || algo == SHA256 ? 2 : -1;
        return -1;
}

static inline std::vector<HashFamily> hash_families(bool include_dispatch = true)
{
        std::vector<HashFamily> out;
        for (int a = 0; a < NALGO; a++) {
                std::string pre = std::string("_") + algo_desc[a].name + "_ctx_mgr_submit_";
                for (size_t i = 0; i < isal_symtab_n; i++) {
                        std::string n = isal_symtab[i].name;
                        if (n.compare(0, pre.size(), pre) != 0) continue;
                        HashFamily f;
                        f.algo = a;
                        f.fam = n.substr(pre.size());
                        std::string b = std::string("_") + algo_desc[a].name + "_ctx_mgr_";
                        f.init = (hash_init_fn) sym(b + "init_" + f.fam);
                        f.submit = (hash_submit_fn) sym(b + "submit_" + f.fam);
                        f.flush = (hash_flush_fn) sym(b + "flush_" + f.fam);
                        if (!f.init || !f.submit || !f.flush) continue;
                        f.lanes = documented_lanes(a, f.fam);
                        f.runnable = host_can_run(f.fam);
                        out.push_back(f);
                }
                if (include_dispatch) {
                        std::string b = std::string(algo_desc[a].name) + "_ctx_mgr_";
                        HashFamily l;
                        l.algo = a;
                        l.fam = "legacy";
                        l.init = (hash_init_fn) sym(b + "init");
                        l.submit = (hash_submit_fn) sym(b + "submit");
                        l.flush = (hash_flush_fn) sym(b + "flush");
                        l.lanes = -1;
                        if (l.init && l.submit && l.flush) out.push_back(l);
                        HashFamily p;
                        p.algo = a;
                        p.fam = "isal";
                        p.i_init = (isal_init_fn) sym("isal_" + b + "init");
                        p.i_submit = (isal_submit_fn) sym("isal_" + b + "submit");
                        p.i_flush = (isal_flush_fn) sym("isal_" + b + "flush");
                        p.lanes = -1;
                        if (p.i_init && p.i_submit && p.i_flush) out.push_back(p);
                }
        }
        return out;
}

// field accessors on an opaque context of algorithm a
static inline uint32_t &ctx_status(int a, void *c) { return *(uint32_t *) ((uint8_t *) c + algo_desc[a].off_status); }
static inline int32_t &ctx_error(int a, void *c) { return *(int32_t *) ((uint8_t *) c + algo_desc[a].off_error); }
static inline uint64_t &ctx_total(int a, void *c) { return *(uint64_t *) ((uint8_t *) c + algo_desc[a].off_total); }
static inline void *&ctx_user(int a, void *c) { return *(void **) ((uint8_t *) c + algo_desc[a].off_user); }
static inline void *ctx_digest(int a, void *c) { return (uint8_t *) c + algo_desc[a].off_digest; }
static inline void ctx_init(int a, void *c)
{
        // the isal_hash_ctx_init macro: error = NONE, status = COMPLETE
        ctx_error(a, c) = ISAL_HASH_CTX_ERROR_NONE;
        ctx_status(a, c) = ISAL_HASH_CTX_STS_COMPLETE;
}

} // namespace isal
