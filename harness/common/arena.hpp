// Guard-page arenas and fault recovery.
//  * every buffer lives in its own mapping  [PROT_NONE page][RW pages][PROT_NONE page]
//  * END placement: last byte flush against the trailing inaccessible page (as far as the
//    requested alignment allows); START placement: first byte right after the leading one
//  * the rest of the RW pages holds a position dependent canary that is verified afterwards
//  * inputs can be switched to read-only, so a write into an input faults
//  * SIGSEGV/SIGBUS inside guarded_call() are caught on an alternate stack and turned into
//    a FaultInfo (address, read/write, which buffer) via siglongjmp
#pragma once
#include <csetjmp>
#include <csignal>
#include <cstdint>
#include <cstdio>
#include <cstdlib>
#include <cstring>
#include <string>
#include <sys/mman.h>
#include <ucontext.h>
#include <unistd.h>
#include <vector>

namespace guard {

enum Place { END = 0, START = 1 };

struct Buf {
        std::string name;
        uint8_t *map = nullptr; // start of mapping (leading guard page)
        size_t map_len = 0;
        uint8_t *rw = nullptr; // first RW byte
        size_t rw_len = 0;
        uint8_t *p = nullptr; // user pointer
        size_t len = 0;
        bool readonly = false;
        bool noaccess = false;
};

// Hidden-state switch for C20: complements the pre-fill of every buffer that is allocated with a fill pattern
// (outputs and not-yet-initialised objects); inputs are copied in afterwards and are not affected.
static int g_fill_xor = 0;

static inline uint8_t canary_at(const uint8_t *a) { return (uint8_t) ((((uintptr_t) a * 0x9E3779B1u) >> 11) ^ 0xA5); }

struct FaultInfo {
        bool faulted = false;
        uintptr_t addr = 0;
        bool write = false;
        int sig = 0;
        uintptr_t rip = 0;
        std::string where; // filled by Arena::describe
};

struct Arena {
        std::vector<Buf> bufs;
        static constexpr size_t PG = 4096;

        ~Arena() { reset(); }
        void reset()
        {
                for (auto &b : bufs) munmap(b.map, b.map_len);
                bufs.clear();
        }
        // Allocate len bytes with the given alignment.  fill: byte pattern seed for the user range
        // (position dependent, derived from fill) so stale-output dependence is visible.
        // shift: move the user range this many bytes away from the flush position (gives arbitrary
        // alignment on buffers that are not flush against a guard page); multiple of align.
        uint8_t *alloc(const char *name, size_t len, size_t align, Place pl, int fill = -1, size_t shift = 0)
        {
                if (align == 0) align = 1;
                size_t pages = (len + align + shift + PG - 1) / PG + 1;
                Buf b;
                b.name = name;
                b.map_len = (pages + 2) * PG;
                b.map = (uint8_t *) mmap(nullptr, b.map_len, PROT_NONE, MAP_PRIVATE | MAP_ANONYMOUS, -1, 0);
                if (b.map == MAP_FAILED) { perror("mmap"); abort(); }
                b.rw = b.map + PG;
                b.rw_len = pages * PG;
                if (mprotect(b.rw, b.rw_len, PROT_READ | PROT_WRITE)) { perror("mprotect"); abort(); }
                if (pl == END) {
                        uintptr_t e = (uintptr_t) (b.rw + b.rw_len);
                        b.p = (uint8_t *) ((e - len - shift) & ~(uintptr_t) (align - 1));
                } else {
                        b.p = b.rw + shift; // page aligned satisfies any alignment <= 4096
                }
                b.len = len;
                for (uint8_t *q = b.rw; q < b.rw + b.rw_len; q++) *q = canary_at(q);
                if (fill >= 0)
                        for (size_t i = 0; i < len; i++) b.p[i] = (uint8_t) ((fill + i * 131 + (i >> 8) * 7) ^ g_fill_xor);
                bufs.push_back(b);
                return b.p;
        }
        void release(const void *p)
        {
                for (size_t i = 0; i < bufs.size(); i++)
                        if (bufs[i].p == (const uint8_t *) p) {
                                munmap(bufs[i].map, bufs[i].map_len);
                                bufs.erase(bufs.begin() + i);
                                return;
                        }
        }
        Buf *find(const void *p)
        {
                for (auto &b : bufs)
                        if ((const uint8_t *) p >= b.map && (const uint8_t *) p < b.map + b.map_len) return &b;
                return nullptr;
        }
        void set_readonly(const void *p, bool ro = true)
        {
                Buf *b = find(p);
                if (!b) return;
                mprotect(b->rw, b->rw_len, ro ? PROT_READ : (PROT_READ | PROT_WRITE));
                b->readonly = ro;
        }
        void set_rw(const void *p)
        {
                Buf *b = find(p);
                if (!b) return;
                mprotect(b->rw, b->rw_len, PROT_READ | PROT_WRITE);
                b->readonly = false;
                b->noaccess = false;
        }
        void set_noaccess(const void *p)
        {
                Buf *b = find(p);
                if (!b) return;
                mprotect(b->rw, b->rw_len, PROT_NONE);
                b->readonly = true;
                b->noaccess = true;
        }
        // returns "" if all canaries are intact, otherwise a description of the first damaged byte
        std::string check_canaries() const
        {
                for (auto &b : bufs) {
                        if (b.noaccess) continue;
                        for (const uint8_t *q = b.rw; q < b.rw + b.rw_len; q++) {
                                if (q >= b.p && q < b.p + b.len) { q = b.p + b.len - 1; continue; }
                                if (*q != canary_at(q)) {
                                        char m[200];
                                        long rel = q < b.p ? (long) (q - b.p) : (long) (q - (b.p + b.len));
                                        snprintf(m, sizeof m, "canary damaged: buffer=%s %s%ld (len=%zu)", b.name.c_str(),
                                                 q < b.p ? "start" : "end+", rel, b.len);
                                        return m;
                                }
                        }
                }
                return "";
        }
        void describe(FaultInfo &f) const
        {
                char m[256];
                for (auto &b : bufs) {
                        if ((uint8_t *) f.addr >= b.map && (uint8_t *) f.addr < b.map + b.map_len) {
                                long rel_s = (long) ((uint8_t *) f.addr - b.p);
                                long rel_e = (long) ((uint8_t *) f.addr - (b.p + b.len));
                                snprintf(m, sizeof m, "%s at buffer=%s start%+ld end%+ld len=%zu%s", f.write ? "write" : "read", b.name.c_str(), rel_s,
                                         rel_e, b.len, b.readonly ? " (read-only input)" : "");
                                f.where = m;
                                return;
                        }
                }
                snprintf(m, sizeof m, "%s at unattributed address %#lx", f.write ? "write" : "read", (unsigned long) f.addr);
                f.where = m;
        }
};

// ---------------------------------------------------------------- fault recovery
// per thread: C18 runs guarded calls on several OS threads at once (a fault is delivered to the faulting thread)
static thread_local sigjmp_buf g_env;
static thread_local volatile sig_atomic_t g_armed = 0;
static thread_local FaultInfo *g_fi = nullptr;

static void on_fault(int sig, siginfo_t *si, void *uc_)
{
        ucontext_t *uc = (ucontext_t *) uc_;
        if (!g_armed) {
                // not ours: restore default and re-raise so the crash is visible
                signal(sig, SIG_DFL);
                raise(sig);
                return;
        }
        g_armed = 0;
        if (g_fi) {
                g_fi->faulted = true;
                g_fi->addr = (uintptr_t) si->si_addr;
                g_fi->sig = sig;
                g_fi->write = (uc->uc_mcontext.gregs[REG_ERR] & 2) != 0;
                g_fi->rip = (uintptr_t) uc->uc_mcontext.gregs[REG_RIP];
        }
        siglongjmp(g_env, 1);
}

static inline void install_handlers()
{
        static thread_local bool alt_done = false;
        if (!alt_done) {
                alt_done = true;
                uint8_t *alt = (uint8_t *) mmap(nullptr, 1 << 18, PROT_READ | PROT_WRITE, MAP_PRIVATE | MAP_ANONYMOUS, -1, 0);
                stack_t ss;
                ss.ss_sp = alt;
                ss.ss_size = 1 << 18;
                ss.ss_flags = 0;
                sigaltstack(&ss, nullptr);
        }
        static bool done = false;
        if (done) return;
        done = true;
        struct sigaction sa;
        memset(&sa, 0, sizeof sa);
        sa.sa_sigaction = on_fault;
        sa.sa_flags = SA_SIGINFO | SA_ONSTACK | SA_NODEFER;
        sigemptyset(&sa.sa_mask);
        sigaction(SIGSEGV, &sa, nullptr);
        sigaction(SIGBUS, &sa, nullptr);
        sigaction(SIGILL, &sa, nullptr);
        sigaction(SIGFPE, &sa, nullptr);
}

// Runs f(); returns true if it completed, false if it faulted (fi filled in).
// f must not own C++ objects with non-trivial destructors (it is abandoned by longjmp).
template <class F> static inline bool guarded_call(FaultInfo &fi, F &&f)
{
        install_handlers();
        fi = FaultInfo();
        g_fi = &fi;
        if (sigsetjmp(g_env, 1) == 0) {
                g_armed = 1;
                f();
                g_armed = 0;
                return true;
        }
        g_armed = 0;
        return false;
}

} // namespace guard
