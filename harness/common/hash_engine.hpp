// Hash-history engine: one stateful case format, one generator, one executor with a model of the
// multi-buffer context manager.  Used by C01 (digests), C06 (conservation), C11 (rejected submits),
// and as an operation source by C08/C18/C19/C20.
//
// Commands are *abstract* ("submit the next segment of some caller-owned context", "flush",
// "make a rejected submit of kind k") and are resolved against the model at execution time, so every
// generated history respects the API contract by construction and shrinks freely.
#pragma once
#include "../ref/ref_hash.hpp"
#include "arena.hpp"
#include "isal.hpp"
#include "json.hpp"
#include "pbt.hpp"
#include <map>

namespace he {

using isal::call_fn;

enum { K_SUBMIT = 0, K_FLUSH = 1, K_BAD = 2, K_DRAIN = 3 }; // K_DRAIN: flush until at most `pick` contexts are held
enum { BAD_FLAGS = 0, BAD_PROCESSING = 1, BAD_COMPLETED = 2 };

struct Cmd {
        int kind = K_SUBMIT;
        uint32_t pick = 0;  // which caller-owned (or, for BAD_PROCESSING, manager-held) context
        int fin = 0;        // submit: 1 = this segment ends the message (LAST / ENTIRE)
        uint32_t len = 0;   // segment length
        int place = 0;      // guard::END / guard::START
        uint32_t shift = 0; // bytes away from the flush position (alignment variety)
        int null_buf = 0;   // zero-length FIRST/LAST with a NULL buffer pointer
        int bad = 0;        // rejected-submit kind
        uint32_t raw = 0;   // raw flag bits for BAD_FLAGS (has bits outside 0..3)
};
struct Case {
        std::string fam; // "sha256/avx2"
        int nctx = 1;
        uint64_t seed = 0;
        int prefill = 0x5a; // fill pattern of manager / context memory before init
        std::vector<Cmd> cmds;
        int volume = 0; // C06 only: a long-lived manager - this many segments of almost 2^32 bytes through ONE context (other lanes idle)
};

static inline J to_json(const Case &c)
{
        J j = J::obj();
        j.set("fam", c.fam).set("nctx", c.nctx).set("seed", (unsigned long long) c.seed).set("prefill", c.prefill);
        if (c.volume) j.set("volume", c.volume);
        J a = J::arr();
        for (auto &m : c.cmds) {
                J o = J::obj();
                if (m.kind == K_FLUSH) o.set("op", "flush");
                else if (m.kind == K_DRAIN) o.set("op", "drain").set("pick", m.pick);
                else if (m.kind == K_SUBMIT) {
                        o.set("op", "submit").set("pick", m.pick).set("fin", m.fin).set("len", m.len).set("place", m.place).set("shift", m.shift);
                        if (m.null_buf) o.set("null_buf", 1);
                } else {
                        o.set("op", "bad").set("pick", m.pick).set("bad", m.bad).set("raw", m.raw).set("len", m.len);
                }
                a.push(o);
        }
        j.set("cmds", a);
        return j;
}
static inline Case from_json(const J &j)
{
        Case c;
        c.fam = j.at("fam").s;
        c.nctx = (int) j.num("nctx", 1);
        c.seed = j.unum("seed", 0);
        c.prefill = (int) j.num("prefill", 0x5a);
        c.volume = (int) j.num("volume", 0);
        for (auto &o : j.at("cmds").a) {
                Cmd m;
                std::string op = o.at("op").s;
                m.kind = op == "flush" ? K_FLUSH : op == "drain" ? K_DRAIN : op == "submit" ? K_SUBMIT : K_BAD;
                m.pick = (uint32_t) o.unum("pick", 0);
                m.fin = (int) o.num("fin", 0);
                m.len = (uint32_t) o.unum("len", 0);
                m.place = (int) o.num("place", 0);
                m.shift = (uint32_t) o.unum("shift", 0);
                m.null_buf = (int) o.num("null_buf", 0);
                m.bad = (int) o.num("bad", 0);
                m.raw = (uint32_t) o.unum("raw", 0);
                c.cmds.push_back(m);
        }
        return c;
}

// ---------------------------------------------------------------- generator
// segment length mixture built around the block size B
static inline uint32_t gen_len(unsigned B, uint32_t big_max)
{
        using namespace pbt;
        switch (weighted({ 6, 14, 8, 10, 12, 20, 8, 3 })) {
        case 0: return 0;
        case 1: return rng<uint32_t>(1, B - 1);
        case 2: return B;
        case 3: return B + (coin() ? 1 : -1) * (int) rng<uint32_t>(1, 9);
        case 4: {
                uint32_t k = rng<uint32_t>(2, 40);
                int d = pick<int>({ 0, 0, 1, -1, 7, -7 });
                return k * B + d;
        }
        case 5: return rng<uint32_t>(2 * B, 40 * B);
        case 6: return rng<uint32_t>(1, 16 * 1024);
        default: return rng<uint32_t>(1, big_max);
        }
}

struct GenOpts {
        bool allow_bad = false;
        int max_cmds = 60;
        uint32_t big_max = 256 * 1024;
        int bad_pct = 12;
};

static inline Case gen_case(const isal::HashFamily &f, const GenOpts &go)
{
        using namespace pbt;
        Case c;
        c.fam = f.label();
        int lanes = f.lanes > 0 ? f.lanes : (f.lanes == 0 ? 2 : (int) isal::algo_desc[f.algo].max_lanes);
        if (lanes > 16 && !coin(1, 3)) lanes = 16; // keep md5/avx512 (32 lanes) histories mostly moderate
        c.nctx = weighted({ 2, 3, 3, 2 }) == 0 ? rng<int>(1, 3) : rng<int>(1, 3 * lanes + 2);
        if (coin(1, 4)) c.nctx = pick<int>({ lanes - 1 > 0 ? lanes - 1 : 1, lanes, lanes + 1 });
        c.seed = rng64(1, UINT64_MAX);
        c.prefill = rng<int>(0, 255);
        unsigned B = isal::algo_desc[f.algo].block;
        int n = rng<int>(1, go.max_cmds);
        if (coin(2, 5)) {
                // phased history: fill the manager (around its lane count), drain it down to 0..3 held contexts, repeat.  Reaches "all lanes in use",
                // "exactly one lane left" and "refill after a drain" far more often than independent random commands do.
                if (c.nctx < lanes + 1) c.nctx = lanes + rng<int>(1, 3);
                int budget = go.max_cmds + 20;
                while (budget > 0) {
                        int fill = weighted({ 3, 2 }) == 0 ? pick<int>({ lanes - 1 > 0 ? lanes - 1 : 1, lanes, lanes, lanes + 1 }) : rng<int>(1, 2 * lanes);
                        for (int i = 0; i < fill && budget > 0; i++, budget--) {
                                Cmd m;
                                m.kind = K_SUBMIT;
                                m.pick = rng<uint32_t>(0, 1023);
                                m.fin = weighted({ 1, 3 });
                                m.len = gen_len(B, go.big_max > 4096 ? 4096 : go.big_max);
                                if (i == fill - 1 && coin()) m.len = m.len * 4 + 5 * B; // the last job of a fill phase is often the longest one
                                m.place = weighted({ 2, 1 });
                                m.shift = coin(1, 3) ? rng<uint32_t>(0, 63) : 0;
                                c.cmds.push_back(m);
                                if (go.allow_bad && rng<int>(0, 99) < go.bad_pct / 2) {
                                        Cmd b;
                                        b.kind = K_BAD;
                                        b.bad = rng<int>(0, 2);
                                        b.pick = rng<uint32_t>(0, 1023);
                                        b.len = rng<uint32_t>(0, 2 * B);
                                        b.raw = pick<uint32_t>({ 4u, 8u, 0x80u, 0x80000000u }) | rng<uint32_t>(0, 3);
                                        c.cmds.push_back(b);
                                }
                        }
                        Cmd d;
                        d.kind = K_DRAIN;
                        d.pick = (uint32_t) pick<int>({ 0, 1, 1, 1, 2, 3 });
                        c.cmds.push_back(d);
                        budget -= 3;
                        if (coin(1, 3)) break;
                }
                return c;
        }
        // long histories with many contexts: bias to submits so that lanes fill up
        int flush_w = pick<int>({ 2, 8, 20 });
        for (int i = 0; i < n; i++) {
                Cmd m;
                int r = rng<int>(0, 99);
                if (go.allow_bad && r < go.bad_pct) {
                        m.kind = K_BAD;
                        m.bad = rng<int>(0, 2);
                        m.pick = rng<uint32_t>(0, 1023);
                        m.len = coin() ? rng<uint32_t>(0, 3 * B) : 0;
                        // raw flags with at least one bit outside ISAL_HASH_ENTIRE (0x3)
                        uint32_t hi = pick<uint32_t>({ 4u, 8u, 0x10u, 0x80u, 0x100u, 0x80000000u, 0xfffffffcu });
                        if (coin(1, 4)) hi = rng<uint32_t>(1, 0x3fffffff) << 2;
                        m.raw = hi | rng<uint32_t>(0, 3);
                } else if (r < go.bad_pct + flush_w) {
                        m.kind = K_FLUSH;
                } else {
                        m.kind = K_SUBMIT;
                        m.pick = rng<uint32_t>(0, 1023);
                        m.fin = weighted({ 3, 2 });
                        m.len = gen_len(B, go.big_max);
                        m.place = weighted({ 2, 1 }); // END gets 2/3
                        m.shift = coin(1, 3) ? rng<uint32_t>(0, 63) : 0;
                        m.null_buf = (m.len == 0 && coin(1, 4)) ? 1 : 0;
                }
                c.cmds.push_back(m);
        }
        return c;
}

// ---------------------------------------------------------------- executor
struct ExecOpts {
        bool drain = true;
        bool images = true; // compare byte images of untouched contexts around every call
};

struct CtxModel {
        void *c = nullptr;
        bool held = false;     // manager owns it (accepted submit, not yet handed back)
        bool mid = false;      // a message is open (FIRST seen, LAST not yet accepted)
        bool last = false;     // the last accepted segment had LAST
        bool rejected_since = false; // a rejected submit touched this ctx since its last accepted submit
        ref::Hasher h;
        uint64_t total = 0;
        uint64_t stream_state = 0;
        int msg_no = 0;
        int segs = 0;
        bool odd_cut = false; // message has >=2 segments with a cut that is not a block multiple
        uint8_t *seg = nullptr;
        bool seg_is_arena = false;
        void *user = nullptr;
        int completed_msgs = 0;
};

static inline void stream_fill(uint64_t &st, uint8_t *out, size_t n)
{
        uint64_t x = st;
        size_t i = 0;
        while (i < n) {
                x ^= x << 13; x ^= x >> 7; x ^= x << 17;
                uint64_t v = x * 0x2545F4914F6CDD1DULL;
                for (int k = 0; k < 8 && i < n; k++, i++) out[i] = (uint8_t) (v >> (8 * k));
        }
        st = x;
}

static inline int expected_rc(int hash_err)
{
        switch (hash_err) {
        case ISAL_HASH_CTX_ERROR_INVALID_FLAGS: return ISAL_CRYPTO_ERR_INVALID_FLAGS;
        case ISAL_HASH_CTX_ERROR_ALREADY_PROCESSING: return ISAL_CRYPTO_ERR_ALREADY_PROCESSING;
        case ISAL_HASH_CTX_ERROR_ALREADY_COMPLETED: return ISAL_CRYPTO_ERR_ALREADY_COMPLETED;
        }
        return 0;
}

struct ExecStats {
        int max_held = 0;
        bool multi_inflight = false, odd_cut_msg = false, flush_with_2 = false, returned_other = false;
        int rejected = 0, rejected_with_inflight = 0, valid_after_reject = 0;
        int completed = 0, calls = 0;
        uint64_t obs = 1469598103934665603ULL; // running hash of everything observable (which context came back when, status, error, digest, rc)
        void observe(const void *p, size_t n)
        {
                for (size_t i = 0; i < n; i++) { obs ^= ((const uint8_t *) p)[i]; obs *= 1099511628211ULL; }
        }
        void observe(uint64_t v) { observe(&v, 8); }
};

// returns true if the property holds on this history
static inline bool execute(const Case &cs, const isal::HashFamily &f, pbt::Ctx &ctx, ExecStats &st, const ExecOpts &eo = ExecOpts())
{
        using namespace isal;
        const AlgoDesc &D = algo_desc[f.algo];
        const std::string site = f.label();
        guard::Arena A;
        guard::FaultInfo fi;
        int lanes_bound = f.lanes >= 0 ? f.lanes : (int) D.max_lanes;

        uint8_t *mgr = A.alloc("mgr", D.mgr_size, 64, guard::END, cs.prefill);
        std::vector<CtxModel> M(cs.nctx);
        for (int i = 0; i < cs.nctx; i++) {
                M[i].c = A.alloc("ctx", D.ctx_size, 64, (i & 1) ? guard::START : guard::END, (cs.prefill + 17 * i) & 0xff);
                ctx_init(f.algo, M[i].c);
                M[i].user = (void *) (uintptr_t) (0xC0DE0000u + i);
                ctx_user(f.algo, M[i].c) = M[i].user;
                M[i].h = ref::Hasher(f.algo);
        }
        auto model_of = [&](void *p) -> CtxModel * {
                for (auto &m : M)
                        if (m.c == p) return &m;
                return nullptr;
        };
        auto held_count = [&]() {
                int n = 0;
                for (auto &m : M) n += m.held;
                return n;
        };
        auto failx = [&](const std::string &kind, const std::string &msg) -> bool { return ctx.fail(kind + "|" + site, site + ": " + msg); };

        // ---- init
        int rc = 0;
        bool okc = guard::guarded_call(fi, [&] {
                if (f.is_isal()) rc = (int) call_fn((void *) f.i_init, { (uint64_t) mgr });
                else call_fn((void *) f.init, { (uint64_t) mgr });
        });
        if (!okc) {
                A.describe(fi);
                if (failx("fault-init", "fault in mgr init: " + fi.where)) return false;
                return true;
        }
        if (rc != 0 && failx("rc-init", "isal init returned " + std::to_string(rc))) return false;

        std::vector<std::vector<uint8_t>> images(cs.nctx);
        std::vector<uint8_t> mgr_image;

        // handle a context handed back by the library
        auto on_return = [&](void *r, CtxModel *submitted, bool from_flush) -> bool {
                CtxModel *m = model_of(r);
                if (!m) return !failx("returned-unknown", "call returned a pointer that is no submitted context");
                if (!m->held) return !failx("returned-not-held", "context handed back although the manager does not hold it (returned twice?)");
                m->held = false;
                if (submitted && m != submitted) st.returned_other = true;
                st.observe((uint64_t) (m - &M[0]));
                st.observe(ctx_status(f.algo, r));
                st.observe((uint64_t) (uint32_t) ctx_error(f.algo, r));
                st.observe(ctx_total(f.algo, r));
                if (m->last) st.observe(ctx_digest(f.algo, r), D.digest_bytes);
                (void) from_flush;
                uint32_t stt = ctx_status(f.algo, r);
                if (stt & ISAL_HASH_CTX_STS_PROCESSING)
                        if (failx("returned-processing", "context handed back while still marked as being processed, status=" + std::to_string(stt))) return false;
                uint32_t want = m->last ? ISAL_HASH_CTX_STS_COMPLETE : ISAL_HASH_CTX_STS_IDLE;
                if (stt != want && !(stt & ISAL_HASH_CTX_STS_PROCESSING))
                        if (failx("returned-status", "status " + std::to_string(stt) + " expected " + std::to_string(want))) return false;
                if (ctx_user(f.algo, r) != m->user)
                        if (failx("user-data", "user_data changed")) return false;
                if (!m->rejected_since && ctx_error(f.algo, r) != 0)
                        if (failx("error-after-valid", "error field " + std::to_string(ctx_error(f.algo, r)) + " on a context handed back for a valid submission")) return false;
                if (ctx_total(f.algo, r) != m->total)
                        if (failx("total-length", "total_length " + std::to_string(ctx_total(f.algo, r)) + " expected " + std::to_string(m->total))) return false;
                if (m->seg) {
                        if (m->seg_is_arena) A.release(m->seg);
                        m->seg = nullptr;
                }
                if (m->last) {
                        std::vector<uint8_t> got = ref::digest_from_words(f.algo, ctx_digest(f.algo, r));
                        std::vector<uint8_t> exp = m->h.digest();
                        st.completed++;
                        m->completed_msgs++;
                        if (got != exp) {
                                char b[256];
                                snprintf(b, sizeof b, "digest mismatch: message %d of ctx, total %llu bytes in %d segments: got %s expected %s", m->msg_no,
                                         (unsigned long long) m->total, m->segs, ref::hex(got).substr(0, 24).c_str(), ref::hex(exp).substr(0, 24).c_str());
                                if (failx("digest", b)) return false;
                        }
                        if (m->odd_cut) st.odd_cut_msg = true;
                        m->mid = false;
                }
                return true;
        };

        auto snapshot = [&](void *skip1, bool with_mgr) {
                if (!eo.images) return;
                for (int i = 0; i < cs.nctx; i++) {
                        if (M[i].c == skip1) { images[i].clear(); continue; }
                        if (M[i].held && !with_mgr) { images[i].clear(); continue; }
                        images[i].assign((uint8_t *) M[i].c, (uint8_t *) M[i].c + D.ctx_size);
                }
                if (with_mgr) mgr_image.assign(mgr, mgr + D.mgr_size);
        };
        auto compare = [&](void *skip2, bool with_mgr, const char *what) -> bool {
                if (!eo.images) return true;
                for (int i = 0; i < cs.nctx; i++) {
                        if (images[i].empty() || M[i].c == skip2) continue;
                        if (memcmp(images[i].data(), M[i].c, D.ctx_size)) {
                                size_t k = 0;
                                while (((uint8_t *) M[i].c)[k] == images[i][k]) k++;
                                if (failx(std::string("ctx-image-") + what, std::string("a context not involved in the call changed (") + what + "), first byte offset " +
                                                                                    std::to_string(k) + (M[i].held ? " [in flight]" : " [caller-owned]")))
                                        return false;
                        }
                }
                if (with_mgr && memcmp(mgr_image.data(), mgr, D.mgr_size)) {
                        size_t k = 0;
                        while (mgr[k] == mgr_image[k]) k++;
                        if (failx(std::string("mgr-image-") + what, "manager changed by a rejected submit, first byte offset " + std::to_string(k))) return false;
                }
                return true;
        };

        int drain_guard = 0;
        for (size_t ci = 0; ci < cs.cmds.size(); ci++) {
                const Cmd &cm = cs.cmds[ci];
                std::vector<int> avail, heldv, complete_owned;
                for (int i = 0; i < cs.nctx; i++) {
                        if (M[i].held) heldv.push_back(i);
                        else {
                                avail.push_back(i);
                                if (!M[i].mid) complete_owned.push_back(i);
                        }
                }
                int kind = cm.kind;
                bool repeat_cmd = false;
                if (kind == K_DRAIN) {
                        if ((int) heldv.size() <= (int) cm.pick || drain_guard++ > 4 * cs.nctx + 8) { drain_guard = 0; continue; }
                        kind = K_FLUSH;
                        repeat_cmd = true; // stay on this command until the manager holds at most `pick` contexts
                }
                if (kind == K_SUBMIT && avail.empty()) kind = K_FLUSH;

                if (kind == K_SUBMIT) {
                        CtxModel &m = M[avail[cm.pick % avail.size()]];
                        int flags;
                        if (!m.mid) flags = cm.fin ? ISAL_HASH_ENTIRE : ISAL_HASH_FIRST;
                        else flags = cm.fin ? ISAL_HASH_LAST : ISAL_HASH_UPDATE;
                        uint8_t *buf = nullptr;
                        bool null_ok = cm.null_buf && cm.len == 0 && (flags == ISAL_HASH_FIRST || flags == ISAL_HASH_LAST);
                        if (!null_ok) {
                                buf = A.alloc("segment", cm.len, 1, (guard::Place) cm.place, -1, cm.shift);
                                if (!m.mid) m.stream_state = (cs.seed ^ (0x9E3779B97F4A7C15ULL * (uint64_t) ((&m - &M[0]) + 1)) ^ ((uint64_t) (m.msg_no + 1) << 48)) | 1;
                                stream_fill(m.stream_state, buf, cm.len);
                                A.set_readonly(buf);
                        } else if (!m.mid) {
                                m.stream_state = (cs.seed ^ (0x9E3779B97F4A7C15ULL * (uint64_t) ((&m - &M[0]) + 1)) ^ ((uint64_t) (m.msg_no + 1) << 48)) | 1;
                        }
                        // model update (the call is valid by construction, so it must be accepted)
                        if (!m.mid) {
                                m.h.reset();
                                m.total = 0;
                                m.segs = 0;
                                m.odd_cut = false;
                                m.msg_no++;
                        } else if (m.total % D.block) m.odd_cut = true;
                        if (buf) m.h.update(buf, cm.len);
                        m.total += cm.len;
                        m.segs++;
                        m.mid = true;
                        m.last = (flags & ISAL_HASH_LAST) != 0;
                        m.held = true;
                        m.seg = buf;
                        m.seg_is_arena = buf != nullptr;
                        if (m.rejected_since) st.valid_after_reject++;
                        m.rejected_since = false;
                        ctx.label(std::string("flags=") + (flags == 0 ? "UPDATE" : flags == 1 ? "FIRST" : flags == 2 ? "LAST" : "ENTIRE"));
                        ctx.label(cm.len == 0 ? "seglen=0" : cm.len < D.block ? "seglen<B" : cm.len % D.block == 0 ? "seglen=kB" : "seglen>B,odd");

                        snapshot(m.c, false);
                        void *r = nullptr;
                        rc = 0;
                        void *cptr = m.c;
                        st.calls++;
                        okc = guard::guarded_call(fi, [&] {
                                if (f.is_isal()) rc = (int) call_fn((void *) f.i_submit, { (uint64_t) mgr, (uint64_t) cptr, (uint64_t) &r, (uint64_t) buf, cm.len, (uint64_t) (uint32_t) flags });
                                else r = (void *) call_fn((void *) f.submit, { (uint64_t) mgr, (uint64_t) cptr, (uint64_t) buf, cm.len, (uint64_t) (uint32_t) flags });
                        });
                        if (!okc) {
                                A.describe(fi);
                                return !failx("fault-submit", "fault in submit (cmd " + std::to_string(ci) + ", len " + std::to_string(cm.len) + "): " + fi.where);
                        }
                        if (rc != 0)
                                if (failx("rc-valid-submit", "valid submit returned " + std::to_string(rc) + " (cmd " + std::to_string(ci) + ")")) return false;
                        st.observe((uint64_t) rc * 2 + (r ? 1 : 0));
                        if (r && !on_return(r, &m, false)) return false;
                        if (!compare(r, false, "submit")) return false;
                        int hc = held_count();
                        if (hc > st.max_held) st.max_held = hc;
                        if (hc >= 2) st.multi_inflight = true;
                        if (f.lanes == 0 && hc > 0)
                                if (failx("sync-held", "synchronous family kept a context")) return false;
                        if (lanes_bound > 0 && hc > lanes_bound)
                                if (failx("lanes-exceeded", "manager holds " + std::to_string(hc) + " contexts, lanes " + std::to_string(lanes_bound))) return false;
                } else if (kind == K_FLUSH) {
                        int before = held_count();
                        if (before >= 2) st.flush_with_2 = true;
                        ctx.label(before == 0 ? "flush-empty" : "flush-nonempty");
                        snapshot(nullptr, false);
                        void *r = nullptr;
                        rc = 0;
                        st.calls++;
                        okc = guard::guarded_call(fi, [&] {
                                if (f.is_isal()) rc = (int) call_fn((void *) f.i_flush, { (uint64_t) mgr, (uint64_t) &r });
                                else r = (void *) call_fn((void *) f.flush, { (uint64_t) mgr });
                        });
                        if (!okc) {
                                A.describe(fi);
                                return !failx("fault-flush", "fault in flush (cmd " + std::to_string(ci) + "): " + fi.where);
                        }
                        if (rc != 0)
                                if (failx("rc-valid-flush", "flush returned " + std::to_string(rc))) return false;
                        if (before == 0 && r)
                                if (failx("flush-empty-returned", "flush on an empty manager returned a context")) return false;
                        if (before > 0 && !r)
                                if (failx("flush-stranded", "flush returned NULL while the manager holds " + std::to_string(before) + " contexts")) return false;
                        st.observe((uint64_t) rc * 2 + (r ? 1 : 0));
                        if (r && !on_return(r, nullptr, true)) return false;
                        if (!compare(r, false, "flush")) return false;
                } else { // K_BAD
                        CtxModel *m = nullptr;
                        int flags = 0;
                        std::vector<int> accept; // acceptable hash error codes
                        if (cm.bad == BAD_FLAGS) {
                                // any context (in flight or not): invalid flags are a reason on their own
                                int idx = cm.pick % cs.nctx;
                                m = &M[idx];
                                flags = (int) cm.raw;
                                accept.push_back(ISAL_HASH_CTX_ERROR_INVALID_FLAGS);
                                if (m->held) accept.push_back(ISAL_HASH_CTX_ERROR_ALREADY_PROCESSING);
                                if (!m->held && !m->mid && !(flags & ISAL_HASH_FIRST)) accept.push_back(ISAL_HASH_CTX_ERROR_ALREADY_COMPLETED);
                        } else if (cm.bad == BAD_PROCESSING) {
                                if (heldv.empty()) { ctx.label("bad-skipped"); continue; }
                                m = &M[heldv[cm.pick % heldv.size()]];
                                flags = (int) (cm.raw & 3);
                                accept.push_back(ISAL_HASH_CTX_ERROR_ALREADY_PROCESSING);
                        } else {
                                if (complete_owned.empty()) { ctx.label("bad-skipped"); continue; }
                                m = &M[complete_owned[cm.pick % complete_owned.size()]];
                                flags = (cm.raw & 1) ? ISAL_HASH_LAST : ISAL_HASH_UPDATE;
                                accept.push_back(ISAL_HASH_CTX_ERROR_ALREADY_COMPLETED);
                        }
                        // The synchronous base family documents/implements ALREADY_PROCESSING only for states it can be in;
                        // it can never hold a context, so BAD_PROCESSING was skipped above (heldv empty).
                        uint8_t *buf = A.alloc("bad-segment", cm.len, 1, guard::END, 0x33);
                        A.set_readonly(buf);
                        st.rejected++;
                        if (held_count() - (m->held ? 1 : 0) >= 1) st.rejected_with_inflight++;
                        ctx.label(cm.bad == BAD_FLAGS ? "bad=flags" : cm.bad == BAD_PROCESSING ? "bad=processing" : "bad=completed");
                        // full images: manager, every context (in flight too), the rejected one minus its error field
                        bool keep = eo.images;
                        std::vector<uint8_t> own((uint8_t *) m->c, (uint8_t *) m->c + D.ctx_size);
                        if (keep) {
                                for (int i = 0; i < cs.nctx; i++) images[i].assign((uint8_t *) M[i].c, (uint8_t *) M[i].c + D.ctx_size);
                                images[m - &M[0]].clear();
                                mgr_image.assign(mgr, mgr + D.mgr_size);
                        }
                        void *r = nullptr;
                        rc = 0;
                        void *cptr = m->c;
                        st.calls++;
                        okc = guard::guarded_call(fi, [&] {
                                if (f.is_isal()) rc = (int) call_fn((void *) f.i_submit, { (uint64_t) mgr, (uint64_t) cptr, (uint64_t) &r, (uint64_t) buf, cm.len, (uint64_t) (uint32_t) flags });
                                else r = (void *) call_fn((void *) f.submit, { (uint64_t) mgr, (uint64_t) cptr, (uint64_t) buf, cm.len, (uint64_t) (uint32_t) flags });
                        });
                        if (!okc) {
                                A.describe(fi);
                                return !failx("fault-bad-submit", "fault in rejected submit: " + fi.where);
                        }
                        A.release(buf);
                        m->rejected_since = true;
                        if (r != cptr)
                                if (failx("reject-not-returned", "rejected submit did not hand the context straight back")) return false;
                        int err = ctx_error(f.algo, cptr);
                        st.observe((uint64_t) rc * 2 + (r == cptr ? 1 : 0));
                        st.observe((uint64_t) (uint32_t) err);
                        bool okerr = false;
                        for (int a : accept) okerr |= (a == err);
                        if (!okerr)
                                if (failx("reject-code", "rejected submit (kind " + std::to_string(cm.bad) + ", flags " + std::to_string(flags) + ") left error " + std::to_string(err))) return false;
                        if (f.is_isal()) {
                                bool okrc = false;
                                for (int a : accept) okrc |= (expected_rc(a) == rc);
                                if (!okrc)
                                        if (failx("reject-rc", "rejected submit returned " + std::to_string(rc))) return false;
                        }
                        // rejected context: everything but the error field as before
                        {
                                std::vector<uint8_t> now((uint8_t *) m->c, (uint8_t *) m->c + D.ctx_size);
                                memcpy(&now[D.off_error], &own[D.off_error], 4);
                                if (now != own) {
                                        size_t k = 0;
                                        while (now[k] == own[k]) k++;
                                        if (failx("reject-ctx-changed", "rejected context changed beyond its error field, offset " + std::to_string(k))) return false;
                                }
                        }
                        if (keep && !compare(nullptr, true, "reject")) return false;
                }
                std::string cn = A.check_canaries();
                if (!cn.empty())
                        if (failx("canary", cn + " after cmd " + std::to_string(ci))) return false;
                if (repeat_cmd) ci--;
        }

        if (eo.drain) {
                int before = held_count();
                for (int k = 0; k <= before; k++) {
                        void *r = nullptr;
                        rc = 0;
                        int hc = held_count();
                        okc = guard::guarded_call(fi, [&] {
                                if (f.is_isal()) rc = (int) call_fn((void *) f.i_flush, { (uint64_t) mgr, (uint64_t) &r });
                                else r = (void *) call_fn((void *) f.flush, { (uint64_t) mgr });
                        });
                        if (!okc) {
                                A.describe(fi);
                                return !failx("fault-flush", "fault in drain flush: " + fi.where);
                        }
                        if (rc != 0)
                                if (failx("rc-valid-flush", "drain flush returned " + std::to_string(rc))) return false;
                        if (hc == 0) {
                                if (r && failx("flush-empty-returned", "flush on a drained manager returned a context")) return false;
                                break;
                        }
                        if (!r) {
                                if (failx("flush-stranded", "drain: flush returned NULL while " + std::to_string(hc) + " contexts are held")) return false;
                                break;
                        }
                        if (!on_return(r, nullptr, true)) return false;
                }
                if (held_count() != 0)
                        if (failx("not-drained", "manager not drained after as many flushes as held contexts")) return false;
                std::string cn = A.check_canaries();
                if (!cn.empty())
                        if (failx("canary", cn + " after drain")) return false;
        }
        return true;
}

} // namespace he
