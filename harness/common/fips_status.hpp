// Locating the FIPS self-test status word without depending on how asm_set_self_tests_status is encoded.
// Every 32-bit displacement candidate in the first bytes of the setter is tried as a RIP-relative operand; a candidate
// is accepted only if it lies in a writable mapping of this executable and FOLLOWS the setter behaviourally
// (set 1 -> reads 1, set 0 -> reads 0, set 1 -> reads 1).  The harness then reads the word directly (the library's own
// reader, asm_check_self_tests_status, claims the NOT_DONE state and spins while RUNNING) and resets it directly.
#pragma once
#include <cstdint>
#include <cstdio>
#include <cstring>
#include <utility>
#include <vector>

extern "C" void asm_set_self_tests_status(int);

namespace fips {
static inline volatile uint32_t *status_ptr()
{
        static volatile uint32_t *p = nullptr;
        static bool tried = false;
        if (tried) return p;
        tried = true;
        std::vector<std::pair<uintptr_t, uintptr_t>> rw;
        if (FILE *f = fopen("/proc/self/maps", "r")) {
                char line[512];
                while (fgets(line, sizeof line, f)) {
                        unsigned long lo, hi;
                        char perm[8];
                        if (sscanf(line, "%lx-%lx %7s", &lo, &hi, perm) == 3 && perm[0] == 'r' && perm[1] == 'w' && !strstr(line, "[stack") && !strstr(line, "[heap")) rw.emplace_back(lo, hi);
                }
                fclose(f);
        }
        const uint8_t *c = (const uint8_t *) &asm_set_self_tests_status;
        for (int i = 1; i < 64 && !p; i++) {
                int32_t rel;
                memcpy(&rel, c + i, 4);
                for (int end : { i + 4, i + 5, i + 8 }) {
                        uintptr_t cand = (uintptr_t) (c + end) + (intptr_t) rel;
                        if (cand & 3) continue;
                        bool ok = false;
                        for (auto &r : rw)
                                if (cand >= r.first && cand + 4 <= r.second) ok = true;
                        if (!ok) continue;
                        volatile uint32_t *q = (volatile uint32_t *) cand;
                        uint32_t keep = *q;
                        asm_set_self_tests_status(1);
                        bool a = *q == 1;
                        asm_set_self_tests_status(0);
                        bool b = *q == 0;
                        asm_set_self_tests_status(1);
                        bool d = *q == 1;
                        if (a && b && d) { p = q; break; }
                        (void) keep;
                }
        }
        if (p) asm_set_self_tests_status(0);
        return p;
}
// harness-side reset of the state (NOT_DONE = 2, RUNNING = 3, OK = 0, FAIL = 1 as in the property's anchor)
static inline void set_state(uint32_t v) { *status_ptr() = v; __sync_synchronize(); }
} // namespace fips
