// AES operations by name ("keyexp128/sse", "cbc_dec192/avx", "gcm128/sse:update_enc_nt", "xts256/vaes:dec:raw", ...):
// discovery of every AES entry point x family, a case generator over the length classes that reach each unrolled exit
// path, and a builder that prepares a valid call (function + integer arguments) in guarded memory together with the set
// of secrets involved.  Shared by C14 (SAFE_DATA), C19 (ABI) and C20 (hidden inputs).
#pragma once
#include "aes_engine.hpp"
#include <functional>
#include <unordered_set>

namespace aops {

// when set (C19: every exit path), XTS cases may ask for less than one block: the routines then return without touching anything
static bool g_xts_short = false;

struct Case {
        std::string op; // e.g. "keyexp128/sse", "cbc_dec192/avx", "gcm128/sse:enc", "gcm256/isal:update_dec_nt", "xts128/avx:enc:raw"
        uint64_t seed = 1, len = 0, aad_len = 0, pre_len = 0; // pre_len: bytes fed through update before the observed call (stream ops)
        int tag_len = 16;
        uint32_t pl = 0;  // placement bits per buffer class (0 = end-flush against a guard page, 1 = start-flush): in,out,aad,iv,tag,key,keydata,ctx
        uint32_t sh = 0;  // 6-bit shift per unaligned buffer class (bytes away from the flush position)
};
static inline J to_json(const Case &c)
{
        J j = J::obj();
        j.set("op", c.op).set("seed", (unsigned long long) c.seed).set("len", (unsigned long long) c.len).set("aad_len", (unsigned long long) c.aad_len);
        j.set("pre_len", (unsigned long long) c.pre_len).set("tag_len", c.tag_len).set("pl", c.pl).set("sh", c.sh);
        return j;
}
static inline Case from_json(const J &j)
{
        Case c;
        c.op = j.at("op").s;
        c.seed = j.unum("seed", 1); c.len = j.unum("len", 0); c.aad_len = j.unum("aad_len", 0); c.pre_len = j.unum("pre_len", 0); c.tag_len = j.num("tag_len", 16); c.pl = j.unum("pl", 0); c.sh = j.unum("sh", 0);
        return c;
}


struct Secrets {
        std::unordered_set<std::string> set;
        std::vector<std::pair<std::string, std::string>> names; // value -> description (first wins)
        void add(const uint8_t *p, const char *what)
        {
                // skip low-entropy values (would match pattern fills or zero padding by accident)
                bool seen[256] = { false };
                int distinct = 0;
                for (int i = 0; i < 16; i++)
                        if (!seen[p[i]]) { seen[p[i]] = true; distinct++; }
                if (distinct < 8) return;
                std::string v((const char *) p, 16);
                if (set.insert(v).second) names.emplace_back(v, what);
        }
        void add_all(const uint8_t *p, size_t n, const char *what)
        {
                for (size_t o = 0; o + 16 <= n; o += 16) add(p + o, what);
        }
        void add_rev(const uint8_t *p, const char *what)
        {
                uint8_t r[16];
                for (int i = 0; i < 16; i++) r[i] = p[15 - i];
                add(r, what);
        }
        const char *what(const std::string &v) const
        {
                for (auto &n : names)
                        if (n.first == v) return n.second.c_str();
                return "?";
        }
};

static inline void add_key_material(Secrets &S, const uint8_t *key, int bits)
{
        ref::Aes a(key, bits);
        S.add(key, "raw key");
        S.add(key + bits / 8 - 16, "raw key (upper half)");
        auto e = a.enc_schedule(), d = a.dec_schedule();
        S.add_all(e.data(), e.size(), "encryption round key");
        S.add_all(d.data(), d.size(), "decryption round key");
}
static inline void add_ghash_material(Secrets &S, const uint8_t *key, int bits)
{
        ref::Aes a(key, bits);
        uint8_t z[16] = { 0 }, h[16], p[16];
        a.encrypt(z, h);
        memcpy(p, h, 16);
        for (int i = 1; i <= 48; i++) {
                S.add(p, "GHASH key power");
                S.add_rev(p, "GHASH key power (byte-reversed)");
                ref::ghash_mul(p, h);
        }
}


struct Ops {
        std::vector<std::string> names;
        std::vector<ae::GcmFam> gcm;
        std::vector<ae::XtsFam> xts;
        std::vector<ae::cbc::Ent> cbc;
        void discover(const std::string &only = "")
        {
                auto &g_ops = names;
                auto &g_cbc = cbc;
                auto &g_gcm = gcm;
                auto &g_xts = xts;
                for (auto &e : ae::cbc::discover())
                        if (e.runnable) { g_cbc.push_back(e); g_ops.push_back(e.label()); }
                for (auto &g : ae::gcm_families()) {
                        if (!g.runnable) continue;
                        g_gcm.push_back(g);
                        if (g.pre) g_ops.push_back(g.label() + ":pre");
                        if (g.precomp) g_ops.push_back(g.label() + ":precomp");
                        g_ops.push_back(g.label() + ":init");
                        for (const char *d : { "enc", "dec" }) {
                                int di = d[0] == 'd';
                                g_ops.push_back(g.label() + ":" + d);
                                if (g.oneshot[di][1]) g_ops.push_back(g.label() + ":" + d + "_nt");
                                g_ops.push_back(g.label() + ":update_" + d);
                                if (g.update[di][1]) g_ops.push_back(g.label() + ":update_" + d + "_nt");
                                g_ops.push_back(g.label() + ":finalize_" + d);
                        }
                }
                // the internal C-level pre functions (shared by dispatcher and legacy)
                for (auto &x : ae::xts_families()) {
                        if (!x.runnable) continue;
                        g_xts.push_back(x);
                        for (const char *d : { "enc", "dec" })
                                for (const char *e : { "raw", "expanded" }) g_ops.push_back(x.label() + ":" + d + ":" + e);
                }
                if (!only.empty()) {
                        std::vector<std::string> f;
                        for (auto &o : g_ops)
                                if (o.find(only) != std::string::npos) f.push_back(o);
                        g_ops = f;
                }
        }
};

static inline Case gen_case(const Ops &O)
{
        using namespace pbt;
        const auto &g_ops = O.names;
        Case c;
        c.op = g_ops[rng<size_t>(0, g_ops.size() - 1)];
        c.seed = rng64(1, UINT64_MAX - 8);
        bool nt = c.op.find("_nt") != std::string::npos;
        if (c.op.compare(0, 3, "cbc") == 0) c.len = weighted({ 6, 1 }) == 0 ? rng<uint64_t>(1, 40) : rng<uint64_t>(41, 300);
        else if (c.op.compare(0, 3, "xts") == 0) {
                c.len = weighted({ 8, 2, 1 }) == 0 ? rng<uint64_t>(16, 400) : rng<uint64_t>(401, 5000);
                if (g_xts_short && coin(1, 6)) c.len = rng<uint64_t>(0, 15); // the family routines return at once for less than one block
        }
        else {
                c.len = weighted({ 1, 8, 3 }) == 0 ? 0 : rng<uint64_t>(1, coin(1, 4) ? 4200 : 900);
                c.aad_len = weighted({ 1, 6, 2 }) == 0 ? 0 : rng<uint64_t>(1, coin(1, 5) ? 700 : 48);
                c.pre_len = weighted({ 2, 3, 2 }) == 0 ? 0 : rng<uint64_t>(1, 200);
                if (nt) c.pre_len = c.pre_len / 64 * 64;
                c.tag_len = pick<int>({ 16, 12, 8 });
        }
        c.pl = rng<uint32_t>(0, 255) & (coin(1, 2) ? 0xffu : 0u);
        c.sh = coin(1, 3) ? (rng<uint32_t>(0, 0x7fffffffu) | 0x80000000u) : 0;
        return c;
}

struct Built {
        void *fn = nullptr;
        uint64_t args[12] = { 0 };
        int nargs = 0;
        std::string exitclass;
        Secrets S;
        // C20: byte ranges that are declared outputs of the observed call, and a continuation that exercises the
        // "later behaviour" of the objects the call produced (its results are appended to outs by the continuation)
        std::vector<std::pair<uint8_t *, size_t>> outs;
        std::function<bool()> continuation;
        std::vector<uint8_t *> inputs; // buffers the observed call may only read (C08 maps them read-only)
        uint64_t data_len = 0;
};

// returns 0 = call prepared, 1 = skip (entry absent), 2 = a failure was reported, 3 = a known finding was hit (suppressed)
static inline int build(const Case &c, Ops &O, guard::Arena &A, Built &B, pbt::Ctx &ctx)
{
        guard::FaultInfo fi;
        Secrets &S = B.S;
        uint64_t *args = B.args;
        int &nargs = B.nargs;
        void *&fn = B.fn;
        auto &g_cbc = O.cbc;
        auto &g_gcm = O.gcm;
        auto &g_xts = O.xts;
        auto failx = [&](const std::string &k, const std::string &m) { return ctx.fail(k + "|" + c.op, c.op + ": " + m); };
        enum { B_IN = 0, B_OUT, B_AAD, B_IV, B_TAG, B_KEY, B_KD, B_CTX };
        auto PL = [&](int k) { return (guard::Place) ((c.pl >> k) & 1); };
        auto SH = [&](int k) { return (size_t) ((c.sh >> (4 * k)) & 15) * ((c.sh >> 31) & 1 ? 1 : 0); };
        std::string family = c.op.substr(0, c.op.find(':'));
        std::string sub = c.op.find(':') == std::string::npos ? "" : c.op.substr(c.op.find(':') + 1);
        std::string &exitclass = B.exitclass;

        if (c.op.compare(0, 6, "keyexp") == 0 || c.op.compare(0, 3, "cbc") == 0) {
                const ae::cbc::Ent *e = nullptr;
                for (auto &x : g_cbc)
                        if (x.label() == c.op) e = &x;
                if (!e) { ctx.label("absent-entry"); return 1; }
                std::vector<uint8_t> key = pbt::expandv(c.seed, e->bits / 8);
                add_key_material(S, key.data(), e->bits);
                ref::Aes ra(key.data(), e->bits);
                fn = e->fn;
                if (e->op == ae::cbc::OP_KEYEXP) {
                        uint8_t *kb = A.alloc("key", key.size(), 1, PL(B_KEY), -1, SH(B_KEY));
                        memcpy(kb, key.data(), key.size());
                        size_t ksz = 16 * (e->bits / 32 + 7);
                        uint8_t *enc = A.alloc("enc", ksz, 1, PL(B_OUT), 1, SH(B_OUT)), *dec = A.alloc("dec", ksz, 1, PL(B_TAG), 2, SH(B_TAG));
                        B.inputs.push_back(kb);
                        args[0] = (uint64_t) kb; args[1] = (uint64_t) enc; args[2] = (uint64_t) dec;
                        nargs = 3;
                        exitclass = "keyexp";
                        B.outs.emplace_back(enc, ksz);
                        B.outs.emplace_back(dec, ksz);
                } else {
                        uint64_t len = 16 * (c.len ? c.len : 1);
                        auto sched = e->op == ae::cbc::OP_DEC ? ra.dec_schedule() : ra.enc_schedule();
                        uint8_t *keys = A.alloc("keys", sched.size(), 16, PL(B_KEY));
                        B.inputs.push_back(keys);
                        memcpy(keys, sched.data(), sched.size());
                        uint8_t *iv = A.alloc("iv", 16, 16, PL(B_IV)), *in = A.alloc("in", len, 1, PL(B_IN), -1, SH(B_IN)), *out = A.alloc("out", len, 1, PL(B_OUT), 5, SH(B_OUT));
                        B.inputs.push_back(iv);
                        B.inputs.push_back(in);
                        B.data_len = len;
                        pbt::expand(c.seed + 7, iv, 16);
                        pbt::expand(c.seed + 8, in, len);
                        B.outs.emplace_back(out, len);
                        args[0] = (uint64_t) in; args[1] = (uint64_t) iv; args[2] = (uint64_t) keys; args[3] = (uint64_t) out; args[4] = len;
                        nargs = 5;
                        exitclass = "blocks%16=" + std::to_string((len / 16) % 16);
                }
        } else if (c.op.compare(0, 3, "gcm") == 0) {
                const ae::GcmFam *g = nullptr;
                for (auto &x : g_gcm)
                        if (x.label() == family) g = &x;
                if (!g) { ctx.label("absent-family"); return 1; }
                std::vector<uint8_t> key = pbt::expandv(c.seed, g->bits / 8), iv = pbt::expandv(c.seed + 1, 12), aad = pbt::expandv(c.seed + 2, c.aad_len);
                add_key_material(S, key.data(), g->bits);
                add_ghash_material(S, key.data(), g->bits);
                uint8_t *kd = A.alloc("key_data", sizeof(isal_gcm_key_data), 16, PL(B_KD), 0x11);
                uint8_t *cd = A.alloc("context_data", sizeof(isal_gcm_context_data), 16, PL(B_CTX), 0x22);
                uint8_t *kb = A.alloc("key", key.size(), 1, PL(B_KEY), -1, SH(B_KEY));
                memcpy(kb, key.data(), key.size());
                uint8_t *ivb = A.alloc("iv", 12, 1, PL(B_IV), -1, SH(B_IV));
                memcpy(ivb, iv.data(), 12);
                uint8_t *ab = A.alloc("aad", c.aad_len, 1, PL(B_AAD), -1, SH(B_AAD));
                memcpy(ab, aad.data(), c.aad_len);
                bool tag_observed = sub.compare(0, 8, "finalize") == 0 || sub == "enc" || sub == "dec" || sub == "enc_nt" || sub == "dec_nt";
                uint8_t *tag = A.alloc("tag", tag_observed ? (size_t) c.tag_len : 16, 1, PL(B_TAG), 9, SH(B_TAG));
                bool observed_is_pre = (sub == "pre" || sub == "precomp");
                if (!observed_is_pre || sub == "precomp") {
                        // prepare key data (for "precomp" only the expanded keys are needed before the observed call)
                        if (sub == "precomp") {
                                uint8_t tmp[16 * 15];
                                if (!g->keyexp || !g->precomp) { ctx.label("absent-entry"); return 1; }
                                ((ae::keyexp_fn) g->keyexp)(kb, kd, tmp);
                                memset(tmp, 0, sizeof tmp);
                        } else if (!ae::gcm_prepare(*g, kb, kd, fi)) {
                                A.describe(fi);
                                return failx("fault-pre", fi.where) ? 2 : 3;
                        }
                }
                uint64_t plen = c.pre_len;
                std::vector<uint8_t> data = pbt::expandv(c.seed + 3, plen + c.len);
                bool nt = sub.find("_nt") != std::string::npos;
                uint8_t *in = A.alloc("in", plen + c.len, nt ? 64 : 1, PL(B_IN), -1, nt ? 0 : SH(B_IN)), *out = A.alloc("out", plen + c.len, nt ? 64 : 1, PL(B_OUT), 7, nt ? 0 : SH(B_OUT));
                memcpy(in, data.data(), plen + c.len);
                B.data_len = c.len;
                B.inputs.push_back(kb);
                B.inputs.push_back(ivb);
                B.inputs.push_back(ab);
                B.inputs.push_back(in);
                if (sub != "pre" && sub != "precomp") B.inputs.push_back(kd);
                int dec = sub.find("dec") != std::string::npos ? 1 : 0;
                if (sub == "pre") {
                        fn = g->pre;
                        args[0] = (uint64_t) kb; args[1] = (uint64_t) kd;
                        nargs = 2;
                        exitclass = "pre";
                        {
                                // later behaviour of the key data: a one-shot encryption with it
                                uint8_t *co = A.alloc("cont-out", 48, 1, guard::END, 0x61), *ct = A.alloc("cont-tag", 16, 1, guard::END, 0x62);
                                uint8_t *cc = A.alloc("cont-ctx", sizeof(isal_gcm_context_data), 16, guard::END, 0x63);
                                uint8_t *ci = A.alloc("cont-in", 48, 1, guard::END);
                                pbt::expand(c.seed + 9, ci, 48);
                                const ae::GcmFam *gg = g;
                                B.outs.emplace_back(kd, 16 * (g->bits / 32 + 7));
                                B.outs.emplace_back(co, 48);
                                B.outs.emplace_back(ct, 16);
                                B.continuation = [=]() {
                                        if (!gg->oneshot[0][0]) return true;
                                        guard::FaultInfo f2;
                                        return guard::guarded_call(f2, [&] {
                                                if (gg->api) ((ae::gcm_oneshot_ifn) gg->oneshot[0][0])(kd, cc, co, ci, 48, ivb, ab, c.aad_len, ct, 16);
                                                else ((ae::gcm_oneshot_fn) gg->oneshot[0][0])(kd, cc, co, ci, 48, ivb, ab, c.aad_len, ct, 16);
                                        });
                                };
                        }
                } else if (sub == "precomp") {
                        fn = g->precomp;
                        args[0] = (uint64_t) kd;
                        nargs = 1;
                        exitclass = "precomp";
                        {
                                // later behaviour of the key data: a one-shot encryption with it
                                uint8_t *co = A.alloc("cont-out", 48, 1, guard::END, 0x61), *ct = A.alloc("cont-tag", 16, 1, guard::END, 0x62);
                                uint8_t *cc = A.alloc("cont-ctx", sizeof(isal_gcm_context_data), 16, guard::END, 0x63);
                                uint8_t *ci = A.alloc("cont-in", 48, 1, guard::END);
                                pbt::expand(c.seed + 9, ci, 48);
                                const ae::GcmFam *gg = g;
                                B.outs.emplace_back(kd, 16 * (g->bits / 32 + 7));
                                B.outs.emplace_back(co, 48);
                                B.outs.emplace_back(ct, 16);
                                B.continuation = [=]() {
                                        if (!gg->oneshot[0][0]) return true;
                                        guard::FaultInfo f2;
                                        return guard::guarded_call(f2, [&] {
                                                if (gg->api) ((ae::gcm_oneshot_ifn) gg->oneshot[0][0])(kd, cc, co, ci, 48, ivb, ab, c.aad_len, ct, 16);
                                                else ((ae::gcm_oneshot_fn) gg->oneshot[0][0])(kd, cc, co, ci, 48, ivb, ab, c.aad_len, ct, 16);
                                        });
                                };
                        }
                } else if (sub == "init") {
                        fn = g->init;
                        args[0] = (uint64_t) kd; args[1] = (uint64_t) cd; args[2] = (uint64_t) ivb; args[3] = (uint64_t) ab; args[4] = c.aad_len;
                        nargs = 5;
                        exitclass = "aad%16=" + std::to_string(c.aad_len % 16) + (c.aad_len > 128 ? ",long" : "");
                        {
                                const ae::GcmFam *gg = g;
                                uint64_t n = c.len;
                                B.outs.emplace_back(out, n);
                                B.outs.emplace_back(tag, 16);
                                B.continuation = [=]() {
                                        if (!gg->update[0][0] || !gg->finalize[0]) return true;
                                        guard::FaultInfo f2;
                                        return guard::guarded_call(f2, [&] {
                                                if (gg->api) {
                                                        ((ae::gcm_update_ifn) gg->update[0][0])(kd, cd, out, in, n);
                                                        ((ae::gcm_final_ifn) gg->finalize[0])(kd, cd, tag, 16);
                                                } else {
                                                        ((ae::gcm_update_fn) gg->update[0][0])(kd, cd, out, in, n);
                                                        ((ae::gcm_final_fn) gg->finalize[0])(kd, cd, tag, 16);
                                                }
                                        });
                                };
                        }
                } else if (sub.compare(0, 6, "update") == 0 || sub.compare(0, 8, "finalize") == 0) {
                        if (!g->init || !g->update[dec][0]) { ctx.label("absent-entry"); return 1; }
                        bool ok = guard::guarded_call(fi, [&] {
                                if (g->api) ((ae::gcm_init_ifn) g->init)(kd, cd, ivb, ab, c.aad_len);
                                else ((ae::gcm_init_fn) g->init)(kd, cd, ivb, ab, c.aad_len);
                                if (plen) {
                                        if (g->api) ((ae::gcm_update_ifn) g->update[dec][0])(kd, cd, out, in, plen);
                                        else ((ae::gcm_update_fn) g->update[dec][0])(kd, cd, out, in, plen);
                                }
                        });
                        if (!ok) {
                                A.describe(fi);
                                return failx("fault-setup", fi.where) ? 2 : 3;
                        }
                        if (sub.compare(0, 6, "update") == 0) {
                                fn = g->update[dec][nt];
                                args[0] = (uint64_t) kd; args[1] = (uint64_t) cd; args[2] = (uint64_t) (out + plen); args[3] = (uint64_t) (in + plen); args[4] = c.len;
                                nargs = 5;
                                exitclass = "carry=" + std::to_string(plen % 16 ? 1 : 0) + ",len%16=" + std::to_string(c.len % 16) + ",blocks=" +
                                            std::to_string(c.len / 16 > 50 ? 50 : c.len / 16);
                                {
                                        const ae::GcmFam *gg = g;
                                        B.outs.emplace_back(out + plen, c.len);
                                        B.outs.emplace_back(tag, 16);
                                        B.continuation = [=]() {
                                                if (!gg->finalize[dec]) return true;
                                                guard::FaultInfo f2;
                                                return guard::guarded_call(f2, [&] {
                                                        if (gg->api) ((ae::gcm_final_ifn) gg->finalize[dec])(kd, cd, tag, 16);
                                                        else ((ae::gcm_final_fn) gg->finalize[dec])(kd, cd, tag, 16);
                                                });
                                        };
                                }
                        } else {
                                fn = g->finalize[dec];
                                args[0] = (uint64_t) kd; args[1] = (uint64_t) cd; args[2] = (uint64_t) tag; args[3] = c.tag_len;
                                nargs = 4;
                                exitclass = "carry=" + std::to_string(plen % 16 ? 1 : 0) + ",tag=" + std::to_string(c.tag_len);
                                B.outs.emplace_back(tag, c.tag_len);
                        }
                } else { // one-shot enc / dec [_nt]
                        fn = g->oneshot[dec][nt];
                        args[0] = (uint64_t) kd; args[1] = (uint64_t) cd; args[2] = (uint64_t) out; args[3] = (uint64_t) in; args[4] = c.len; args[5] = (uint64_t) ivb;
                        args[6] = (uint64_t) ab; args[7] = c.aad_len; args[8] = (uint64_t) tag; args[9] = c.tag_len;
                        nargs = 10;
                        exitclass = "len%16=" + std::to_string(c.len % 16) + ",blocks=" + std::to_string(c.len / 16 > 50 ? 50 : c.len / 16) + ",aad%16=" + std::to_string(c.aad_len % 16);
                        B.outs.emplace_back(out, c.len);
                        B.outs.emplace_back(tag, c.tag_len);
                }
                if (!fn) { ctx.label("absent-entry"); return 1; }
                // the family's own precomputed hash-key area counts as GHASH key material too
                if (!observed_is_pre) S.add_all(kd + 16 * 15, sizeof(isal_gcm_key_data) - 16 * 15, "precomputed GHASH key table entry");
        } else if (c.op.compare(0, 3, "xts") == 0) {
                const ae::XtsFam *x = nullptr;
                for (auto &f : g_xts)
                        if (f.label() == family) x = &f;
                if (!x) { ctx.label("absent-family"); return 1; }
                int dec = sub.find("dec") != std::string::npos, expanded = sub.find("expanded") != std::string::npos;
                fn = x->fn[dec][expanded];
                if (!fn) { ctx.label("absent-entry"); return 1; }
                size_t kl = x->bits / 8;
                std::vector<uint8_t> k1 = pbt::expandv(c.seed, kl), k2 = pbt::expandv(c.seed + 1, kl), tw = pbt::expandv(c.seed + 2, 16);
                add_key_material(S, k1.data(), x->bits);
                add_key_material(S, k2.data(), x->bits);
                ref::Aes a1(k1.data(), x->bits), a2(k2.data(), x->bits);
                uint8_t et[16];
                a2.encrypt(tw.data(), et);
                S.add(et, "encrypted XTS tweak");
                std::vector<uint8_t> k1a = k1, k2a = k2;
                if (expanded) { k2a = a2.enc_schedule(); k1a = dec ? a1.dec_schedule() : a1.enc_schedule(); }
                uint64_t len = (c.len < 16 && !g_xts_short) ? 16 : c.len;
                uint8_t *k1b = A.alloc("k1", k1a.size(), 1, PL(B_KEY), -1, SH(B_KEY)), *k2b = A.alloc("k2", k2a.size(), 1, PL(B_KD), -1, SH(B_KD)), *twb = A.alloc("tweak", 16, 1, PL(B_IV), -1, SH(B_IV));
                memcpy(k1b, k1a.data(), k1a.size());
                memcpy(k2b, k2a.data(), k2a.size());
                memcpy(twb, tw.data(), 16);
                uint8_t *in = A.alloc("in", len, 1, PL(B_IN), -1, SH(B_IN)), *out = A.alloc("out", len, 1, PL(B_OUT), 5, SH(B_OUT));
                B.inputs.push_back(k1b);
                B.inputs.push_back(k2b);
                B.inputs.push_back(twb);
                B.inputs.push_back(in);
                B.data_len = len;
                pbt::expand(c.seed + 8, in, len);
                if (len >= 16) B.outs.emplace_back(out, len); // shorter than one block: nothing is written
                args[0] = (uint64_t) k2b; args[1] = (uint64_t) k1b; args[2] = (uint64_t) twb; args[3] = len; args[4] = (uint64_t) in; args[5] = (uint64_t) out;
                nargs = 6;
                exitclass = len < 16 ? "sub-block" : "len%16=" + std::to_string(len % 16 ? 1 : 0) + ",blocks%8=" + std::to_string(len / 16 % 8) + (len >= 128 ? ",bulk" : "");
        } else {
                ctx.label("unknown-op");
                return 1;
        }

        return 0;
}

} // namespace aops
