; Register-exact shims behind the ISAL_CRYPTO_VERIF hook: the library's dispatchers execute
; "call isal_verif_cpuid" / "call isal_verif_xgetbv" instead of the instructions.
; Pass-through to the real instruction unless a virtual CPU is armed by the harness.
; Only eax/ebx/ecx/edx change (as with the real instructions); flags are preserved.
default rel
section .data
global isal_vcpu_armed, isal_vcpu_leaf1, isal_vcpu_leaf7, isal_vcpu_xcr0
global isal_vcpu_cpuid_calls, isal_vcpu_xgetbv_calls, isal_vcpu_xgetbv_ud, isal_vcpu_other_leaf
isal_vcpu_armed:	dq 0
isal_vcpu_leaf1:	dd 0, 0, 0, 0		; eax ebx ecx edx for leaf 1
isal_vcpu_leaf7:	dd 0, 0, 0, 0		; eax ebx ecx edx for leaf 7 subleaf 0
isal_vcpu_xcr0:		dd 0, 0			; eax edx
isal_vcpu_cpuid_calls:	dq 0
isal_vcpu_xgetbv_calls:	dq 0
isal_vcpu_xgetbv_ud:	dq 0			; xgetbv executed while the virtual CPU has OSXSAVE=0 (would #UD)
isal_vcpu_other_leaf:	dq 0			; cpuid leaves other than 1 and 7 requested while armed

section .text
global isal_verif_cpuid:function
global isal_verif_xgetbv:function

isal_verif_cpuid:
	pushfq
	cmp	qword [isal_vcpu_armed], 0
	je	.real
	inc	qword [isal_vcpu_cpuid_calls]
	cmp	eax, 1
	je	.leaf1
	cmp	eax, 7
	jne	.other
	test	ecx, ecx
	jne	.other
	mov	eax, [isal_vcpu_leaf7]
	mov	ebx, [isal_vcpu_leaf7 + 4]
	mov	ecx, [isal_vcpu_leaf7 + 8]
	mov	edx, [isal_vcpu_leaf7 + 12]
	popfq
	ret
.leaf1:
	mov	eax, [isal_vcpu_leaf1]
	mov	ebx, [isal_vcpu_leaf1 + 4]
	mov	ecx, [isal_vcpu_leaf1 + 8]
	mov	edx, [isal_vcpu_leaf1 + 12]
	popfq
	ret
.other:
	inc	qword [isal_vcpu_other_leaf]
.real:
	popfq
	cpuid
	ret

isal_verif_xgetbv:
	pushfq
	cmp	qword [isal_vcpu_armed], 0
	je	.real
	inc	qword [isal_vcpu_xgetbv_calls]
	test	dword [isal_vcpu_leaf1 + 8], (1 << 27)	; OSXSAVE
	jne	.ok
	inc	qword [isal_vcpu_xgetbv_ud]
.ok:
	mov	eax, [isal_vcpu_xcr0]
	mov	edx, [isal_vcpu_xcr0 + 4]
	popfq
	ret
.real:
	popfq
	xgetbv
	ret

section .note.GNU-stack noalloc noexec nowrite progbits
