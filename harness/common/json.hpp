// Minimal JSON value: build, serialise, parse.  Integers are kept exact (int64/uint64).
#pragma once
#include <cstdint>
#include <cstdio>
#include <cstdlib>
#include <cstring>
#include <map>
#include <memory>
#include <stdexcept>
#include <string>
#include <utility>
#include <vector>

struct J {
        enum T { NUL, BOOL, INT, UINT, DBL, STR, ARR, OBJ } t = NUL;
        bool b = false;
        int64_t i = 0;
        uint64_t u = 0;
        double d = 0;
        std::string s;
        std::vector<J> a;
        std::vector<std::pair<std::string, J>> o; // insertion ordered

        J() {}
        J(bool v) : t(BOOL), b(v) {}
        J(int v) : t(INT), i(v) {}
        J(long v) : t(INT), i(v) {}
        J(long long v) : t(INT), i(v) {}
        J(unsigned v) : t(UINT), u(v) {}
        J(unsigned long v) : t(UINT), u(v) {}
        J(unsigned long long v) : t(UINT), u(v) {}
        J(double v) : t(DBL), d(v) {}
        J(const char *v) : t(STR), s(v) {}
        J(const std::string &v) : t(STR), s(v) {}
        static J arr() { J j; j.t = ARR; return j; }
        static J obj() { J j; j.t = OBJ; return j; }
        template <class V> static J arr_of(const V &v)
        {
                J j = arr();
                for (const auto &e : v) j.a.push_back(J(e));
                return j;
        }

        J &push(const J &v) { t = ARR; a.push_back(v); return *this; }
        J &set(const std::string &k, const J &v)
        {
                t = OBJ;
                for (auto &p : o)
                        if (p.first == k) { p.second = v; return *this; }
                o.emplace_back(k, v);
                return *this;
        }
        bool has(const std::string &k) const
        {
                for (auto &p : o)
                        if (p.first == k) return true;
                return false;
        }
        const J &at(const std::string &k) const
        {
                for (auto &p : o)
                        if (p.first == k) return p.second;
                throw std::runtime_error("json: missing key " + k);
        }
        const J &at(size_t k) const { return a.at(k); }
        size_t size() const { return t == ARR ? a.size() : o.size(); }
        int64_t num() const { return t == INT ? i : t == UINT ? (int64_t) u : t == DBL ? (int64_t) d : t == BOOL ? b : 0; }
        uint64_t unum() const { return t == UINT ? u : t == INT ? (uint64_t) i : t == DBL ? (uint64_t) d : t == BOOL ? b : 0; }
        int64_t num(const std::string &k, int64_t def) const { return has(k) ? at(k).num() : def; }
        uint64_t unum(const std::string &k, uint64_t def) const { return has(k) ? at(k).unum() : def; }
        std::string str(const std::string &k, const std::string &def) const { return has(k) ? at(k).s : def; }

        static void esc(std::string &out, const std::string &s)
        {
                out.push_back('"');
                for (unsigned char c : s) {
                        switch (c) {
                        case '"': out += "\\\""; break;
                        case '\\': out += "\\\\"; break;
                        case '\n': out += "\\n"; break;
                        case '\r': out += "\\r"; break;
                        case '\t': out += "\\t"; break;
                        default:
                                if (c < 0x20) { char b[8]; snprintf(b, sizeof b, "\\u%04x", c); out += b; }
                                else out.push_back((char) c);
                        }
                }
                out.push_back('"');
        }
        void dump(std::string &out) const
        {
                char buf[40];
                switch (t) {
                case NUL: out += "null"; break;
                case BOOL: out += b ? "true" : "false"; break;
                case INT: snprintf(buf, sizeof buf, "%lld", (long long) i); out += buf; break;
                case UINT: snprintf(buf, sizeof buf, "%llu", (unsigned long long) u); out += buf; break;
                case DBL: snprintf(buf, sizeof buf, "%.6g", d); out += buf; break;
                case STR: esc(out, s); break;
                case ARR:
                        out.push_back('[');
                        for (size_t k = 0; k < a.size(); k++) { if (k) out.push_back(','); a[k].dump(out); }
                        out.push_back(']');
                        break;
                case OBJ:
                        out.push_back('{');
                        for (size_t k = 0; k < o.size(); k++) {
                                if (k) out.push_back(',');
                                esc(out, o[k].first);
                                out.push_back(':');
                                o[k].second.dump(out);
                        }
                        out.push_back('}');
                        break;
                }
        }
        std::string dump() const { std::string s2; dump(s2); return s2; }

        // ---- parser
        struct P {
                const char *p, *e;
                void ws() { while (p < e && (*p == ' ' || *p == '\n' || *p == '\t' || *p == '\r')) p++; }
                [[noreturn]] void fail(const char *m) { throw std::runtime_error(std::string("json parse: ") + m); }
                J val()
                {
                        ws();
                        if (p >= e) fail("eof");
                        if (*p == '{') {
                                p++;
                                J j = obj();
                                ws();
                                if (p < e && *p == '}') { p++; return j; }
                                for (;;) {
                                        ws();
                                        J k = val();
                                        if (k.t != STR) fail("key");
                                        ws();
                                        if (p >= e || *p != ':') fail("colon");
                                        p++;
                                        j.o.emplace_back(k.s, val());
                                        ws();
                                        if (p < e && *p == ',') { p++; continue; }
                                        if (p < e && *p == '}') { p++; return j; }
                                        fail("obj");
                                }
                        }
                        if (*p == '[') {
                                p++;
                                J j = arr();
                                ws();
                                if (p < e && *p == ']') { p++; return j; }
                                for (;;) {
                                        j.a.push_back(val());
                                        ws();
                                        if (p < e && *p == ',') { p++; continue; }
                                        if (p < e && *p == ']') { p++; return j; }
                                        fail("arr");
                                }
                        }
                        if (*p == '"') {
                                p++;
                                std::string s;
                                while (p < e && *p != '"') {
                                        if (*p == '\\') {
                                                p++;
                                                if (p >= e) fail("esc");
                                                switch (*p) {
                                                case 'n': s.push_back('\n'); break;
                                                case 't': s.push_back('\t'); break;
                                                case 'r': s.push_back('\r'); break;
                                                case 'b': s.push_back('\b'); break;
                                                case 'f': s.push_back('\f'); break;
                                                case 'u': {
                                                        if (e - p < 5) fail("u");
                                                        char h[5] = { p[1], p[2], p[3], p[4], 0 };
                                                        unsigned c = strtoul(h, nullptr, 16);
                                                        if (c < 0x80) s.push_back((char) c);
                                                        else if (c < 0x800) { s.push_back((char) (0xc0 | c >> 6)); s.push_back((char) (0x80 | (c & 63))); }
                                                        else { s.push_back((char) (0xe0 | c >> 12)); s.push_back((char) (0x80 | ((c >> 6) & 63))); s.push_back((char) (0x80 | (c & 63))); }
                                                        p += 4;
                                                        break;
                                                }
                                                default: s.push_back(*p);
                                                }
                                                p++;
                                        } else s.push_back(*p++);
                                }
                                if (p >= e) fail("str");
                                p++;
                                return J(s);
                        }
                        if (!strncmp(p, "true", 4) && e - p >= 4) { p += 4; return J(true); }
                        if (!strncmp(p, "false", 5) && e - p >= 5) { p += 5; return J(false); }
                        if (!strncmp(p, "null", 4) && e - p >= 4) { p += 4; return J(); }
                        const char *q = p;
                        bool neg = false, isd = false;
                        if (*q == '-') { neg = true; q++; }
                        while (q < e && ((*q >= '0' && *q <= '9') || *q == '.' || *q == 'e' || *q == 'E' || *q == '+' || *q == '-')) {
                                if (*q == '.' || *q == 'e' || *q == 'E') isd = true;
                                q++;
                        }
                        if (q == p) fail("value");
                        std::string n(p, q);
                        p = q;
                        if (isd) return J(strtod(n.c_str(), nullptr));
                        if (neg) return J((long long) strtoll(n.c_str(), nullptr, 10));
                        return J((unsigned long long) strtoull(n.c_str(), nullptr, 10));
                }
        };
        static J parse(const std::string &s)
        {
                P p{ s.data(), s.data() + s.size() };
                return p.val();
        }
        static J parse_file(const std::string &path)
        {
                FILE *f = fopen(path.c_str(), "rb");
                if (!f) throw std::runtime_error("cannot open " + path);
                std::string s;
                char buf[65536];
                size_t n;
                while ((n = fread(buf, 1, sizeof buf, f)) > 0) s.append(buf, n);
                fclose(f);
                return parse(s);
        }
};
