; Call trampoline: calls one function with a completely chosen architectural state on a private stack
; and captures the complete state immediately after it returns.
;
;   void vtramp(void);     operates on the global block g_tramp (layout mirrored in tramp.hpp)
;
; Before the call: rsp := g_tramp.stack_top - (stack args), stack args pushed, flags loaded from in_flags
; (DF forced clear), zmm0-31 / k0-7 loaded from in_zmm / in_k, every GPR loaded (argument registers from
; args[0..5], the others from in_gpr[]), MXCSR / x87 CW loaded from in_mxcsr / in_fcw.
; After the return: every GPR, rsp, rflags, MXCSR, x87 CW, zmm0-31, k0-7 are stored before anything else
; is touched (RIP-relative stores need no scratch register; rflags is read on a separate scratch stack so
; that not a single byte of the callee's dead stack is overwritten).
; Requires AVX-512 F+BW on the host (checked by the C++ side before use).
default rel

%define OFF_FN		0
%define OFF_ARGS	8		; 12 x 8
%define OFF_NSTACK	104
%define OFF_STACKTOP	112
%define OFF_IN_GPR	120		; 16 x 8: rax rbx rcx rdx rsi rdi rbp rsp(unused) r8..r15
%define OFF_IN_FLAGS	248
%define OFF_IN_MXCSR	256
%define OFF_IN_FCW	260
%define OFF_OUT_GPR	264		; 16 x 8 same order (slot 7 = rsp after return)
%define OFF_OUT_FLAGS	392
%define OFF_OUT_MXCSR	400
%define OFF_OUT_FCW	404
%define OFF_SAVED_RSP	408
%define OFF_SCRATCH_SP	416
%define OFF_SAVED_MXCSR	424
%define OFF_SAVED_FCW	428
%define OFF_IN_K	432		; 8 x 8
%define OFF_OUT_K	496		; 8 x 8
%define OFF_USE_VEC	560		; 0 = do not touch vector state (host without AVX-512)
%define OFF_IN_ZMM	576		; 32 x 64 (64-byte aligned)
%define OFF_OUT_ZMM	2624		; 32 x 64
%define TRAMP_SIZE	4672

section .bss
align 64
global g_tramp
g_tramp:	resb TRAMP_SIZE

section .text
global vtramp:function
vtramp:
	push	rbx
	push	rbp
	push	r12
	push	r13
	push	r14
	push	r15
	stmxcsr	[g_tramp + OFF_SAVED_MXCSR]
	fnstcw	[g_tramp + OFF_SAVED_FCW]
	mov	[g_tramp + OFF_SAVED_RSP], rsp

	; ---- vector state
	cmp	qword [g_tramp + OFF_USE_VEC], 0
	je	.novec_in
%assign i 0
%rep 32
	vmovdqu64 zmm %+ i, [g_tramp + OFF_IN_ZMM + 64*i]
%assign i i+1
%endrep
%assign i 0
%rep 8
	kmovq	k %+ i, [g_tramp + OFF_IN_K + 8*i]
%assign i i+1
%endrep
.novec_in:
	ldmxcsr	[g_tramp + OFF_IN_MXCSR]
	fldcw	[g_tramp + OFF_IN_FCW]

	; ---- private stack and stack arguments (pushed last-to-first)
	mov	rsp, [g_tramp + OFF_STACKTOP]
	mov	rcx, [g_tramp + OFF_NSTACK]
	lea	r11, [g_tramp]
	test	rcx, rcx
	jz	.noargs
.pusharg:
	push	qword [r11 + OFF_ARGS + 40 + rcx*8]	; args[6 + rcx - 1]
	dec	rcx
	jnz	.pusharg
.noargs:
	; ---- flags (DF clear is forced by the C++ side in in_flags)
	push	qword [g_tramp + OFF_IN_FLAGS]
	popfq
	; ---- general registers
	mov	rax, [g_tramp + OFF_IN_GPR + 0*8]
	mov	rbx, [g_tramp + OFF_IN_GPR + 1*8]
	mov	rbp, [g_tramp + OFF_IN_GPR + 6*8]
	mov	r10, [g_tramp + OFF_IN_GPR + 10*8]
	mov	r11, [g_tramp + OFF_IN_GPR + 11*8]
	mov	r12, [g_tramp + OFF_IN_GPR + 12*8]
	mov	r13, [g_tramp + OFF_IN_GPR + 13*8]
	mov	r14, [g_tramp + OFF_IN_GPR + 14*8]
	mov	r15, [g_tramp + OFF_IN_GPR + 15*8]
	mov	rdi, [g_tramp + OFF_ARGS + 0*8]
	mov	rsi, [g_tramp + OFF_ARGS + 1*8]
	mov	rdx, [g_tramp + OFF_ARGS + 2*8]
	mov	rcx, [g_tramp + OFF_ARGS + 3*8]
	mov	r8,  [g_tramp + OFF_ARGS + 4*8]
	mov	r9,  [g_tramp + OFF_ARGS + 5*8]
	call	[g_tramp + OFF_FN]
	; ---- capture (no register or stack byte is modified before it has been stored)
	mov	[g_tramp + OFF_OUT_GPR + 0*8], rax
	mov	[g_tramp + OFF_OUT_GPR + 1*8], rbx
	mov	[g_tramp + OFF_OUT_GPR + 2*8], rcx
	mov	[g_tramp + OFF_OUT_GPR + 3*8], rdx
	mov	[g_tramp + OFF_OUT_GPR + 4*8], rsi
	mov	[g_tramp + OFF_OUT_GPR + 5*8], rdi
	mov	[g_tramp + OFF_OUT_GPR + 6*8], rbp
	mov	[g_tramp + OFF_OUT_GPR + 7*8], rsp
	mov	[g_tramp + OFF_OUT_GPR + 8*8], r8
	mov	[g_tramp + OFF_OUT_GPR + 9*8], r9
	mov	[g_tramp + OFF_OUT_GPR + 10*8], r10
	mov	[g_tramp + OFF_OUT_GPR + 11*8], r11
	mov	[g_tramp + OFF_OUT_GPR + 12*8], r12
	mov	[g_tramp + OFF_OUT_GPR + 13*8], r13
	mov	[g_tramp + OFF_OUT_GPR + 14*8], r14
	mov	[g_tramp + OFF_OUT_GPR + 15*8], r15
	mov	rsp, [g_tramp + OFF_SCRATCH_SP]		; mov does not alter flags
	pushfq
	pop	qword [g_tramp + OFF_OUT_FLAGS]
	cld
	stmxcsr	[g_tramp + OFF_OUT_MXCSR]
	fnstcw	[g_tramp + OFF_OUT_FCW]
	cmp	qword [g_tramp + OFF_USE_VEC], 0
	je	.novec_out
%assign i 0
%rep 32
	vmovdqu64 [g_tramp + OFF_OUT_ZMM + 64*i], zmm %+ i
%assign i i+1
%endrep
%assign i 0
%rep 8
	kmovq	[g_tramp + OFF_OUT_K + 8*i], k %+ i
%assign i i+1
%endrep
	vzeroupper
.novec_out:
	; ---- back to the C++ world
	ldmxcsr	[g_tramp + OFF_SAVED_MXCSR]
	fldcw	[g_tramp + OFF_SAVED_FCW]
	mov	rsp, [g_tramp + OFF_SAVED_RSP]
	pop	r15
	pop	r14
	pop	r13
	pop	r12
	pop	rbp
	pop	rbx
	ret

section .note.GNU-stack noalloc noexec nowrite progbits
