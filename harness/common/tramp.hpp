// C++ side of the call trampoline (tramp.asm): chosen register file in, captured register file out,
// private call stack with canaries above the call frame and a pattern-filled 64 KiB below it.
#pragma once
#include "isal.hpp"
#include <cstdint>
#include <cstring>
#include <sys/mman.h>

extern "C" {
struct TrampBlock {
        void *fn;              // 0
        uint64_t args[12];     // 8
        uint64_t nstack;       // 104
        uint64_t stack_top;    // 112
        uint64_t in_gpr[16];   // 120  rax rbx rcx rdx rsi rdi rbp rsp r8..r15
        uint64_t in_flags;     // 248
        uint32_t in_mxcsr;     // 256
        uint16_t in_fcw;       // 260
        uint16_t pad0;
        uint64_t out_gpr[16];  // 264
        uint64_t out_flags;    // 392
        uint32_t out_mxcsr;    // 400
        uint16_t out_fcw;      // 404
        uint16_t pad1;
        uint64_t saved_rsp;    // 408
        uint64_t scratch_sp;   // 416
        uint32_t saved_mxcsr;  // 424
        uint16_t saved_fcw;    // 428
        uint16_t pad2;
        uint64_t in_k[8];      // 432
        uint64_t out_k[8];     // 496
        uint64_t use_vec;      // 560
        uint64_t pad3;         // 568
        uint8_t in_zmm[32][64];  // 576
        uint8_t out_zmm[32][64]; // 2624
};
extern TrampBlock g_tramp;
void vtramp(void);
}
static_assert(offsetof(TrampBlock, nstack) == 104 && offsetof(TrampBlock, in_gpr) == 120 && offsetof(TrampBlock, in_flags) == 248 &&
                      offsetof(TrampBlock, out_gpr) == 264 && offsetof(TrampBlock, out_flags) == 392 && offsetof(TrampBlock, saved_rsp) == 408 &&
                      offsetof(TrampBlock, in_k) == 432 && offsetof(TrampBlock, out_k) == 496 && offsetof(TrampBlock, use_vec) == 560 &&
                      offsetof(TrampBlock, in_zmm) == 576 && offsetof(TrampBlock, out_zmm) == 2624 && sizeof(TrampBlock) == 4672,
              "TrampBlock layout must match tramp.asm");

namespace tramp {

enum { RAX = 0, RBX, RCX, RDX, RSI, RDI, RBP, RSP, R8, R9, R10, R11, R12, R13, R14, R15 };
static const uint64_t SENT[16] = { 0xA1A1A1A100000001ULL, 0xB2B2B2B200000002ULL, 0, 0, 0, 0, 0xB6B6B6B600000007ULL, 0, 0, 0, 0xC0C0C0C00000000AULL,
                                   0xC1C1C1C10000000BULL, 0xD2D2D2D20000000CULL, 0xD3D3D3D30000000DULL, 0xD4D4D4D40000000EULL, 0xD5D5D5D50000000FULL };
static constexpr size_t DEAD = 65536;      // bytes of dead stack inspected below the call
static constexpr size_t CANARY_WORDS = 32; // words above the call frame that nobody may write

struct Stack {
        uint8_t *map = nullptr, *scratch = nullptr;
        size_t len = 0;
        uint64_t top = 0; // 16-byte aligned; canaries live at [top, top + 8*CANARY_WORDS)
        Stack()
        {
                len = (1 << 20) + 2 * 4096;
                map = (uint8_t *) mmap(nullptr, len, PROT_NONE, MAP_PRIVATE | MAP_ANONYMOUS, -1, 0);
                mprotect(map + 4096, len - 2 * 4096, PROT_READ | PROT_WRITE);
                top = ((uint64_t) (map + len - 4096 - 8 * CANARY_WORDS - 64)) & ~(uint64_t) 63;
                scratch = (uint8_t *) mmap(nullptr, 65536, PROT_READ | PROT_WRITE, MAP_PRIVATE | MAP_ANONYMOUS, -1, 0);
        }
};
static inline Stack &stack()
{
        static Stack s;
        return s;
}

struct Result {
        uint64_t call_rsp = 0; // rsp at the call instruction (address of the first stack argument)
        bool canary_ok = true;
        int canary_word = -1;
};

// prepare g_tramp for a call; pattern: byte used to pre-fill the dead stack; gprseed/vecseed: hidden-input register contents
static inline void prepare(void *fn, const uint64_t *args, int nargs, uint8_t pattern, uint64_t hidden_seed, bool use_vec)
{
        Stack &S = stack();
        TrampBlock &T = g_tramp;
        memset(&T, 0, offsetof(TrampBlock, in_zmm));
        T.fn = fn;
        int nstack = nargs > 6 ? nargs - 6 : 0;
        for (int i = 0; i < nargs && i < 12; i++) T.args[i] = args[i];
        T.nstack = nstack;
        // rsp must be 16-byte aligned at the call instruction
        uint64_t top = S.top - ((nstack & 1) ? 8 : 0);
        T.stack_top = top;
        T.scratch_sp = (uint64_t) (S.scratch + 65536 - 64);
        for (int i = 0; i < 16; i++) T.in_gpr[i] = SENT[i];
        uint64_t x = hidden_seed * 0x9E3779B97F4A7C15ULL + 1;
        auto nx = [&]() { x ^= x << 13; x ^= x >> 7; x ^= x << 17; return x; };
        if (hidden_seed) {
                T.in_gpr[RAX] = nx();
                T.in_gpr[R10] = nx();
                T.in_gpr[R11] = nx();
                // argument registers beyond the declared arguments are hidden inputs too
                for (int i = nargs; i < 6; i++) T.args[i] = nx();
        }
        T.in_flags = 0x202 | (hidden_seed ? (nx() & 0x8D5) : 0); // IF + reserved bit; arithmetic flags CF PF AF ZF SF OF; DF clear
        T.in_mxcsr = 0x1F80;
        T.in_fcw = 0x037F;
        T.use_vec = use_vec ? 1 : 0;
        for (int r = 0; r < 32; r++)
                for (int b = 0; b < 64; b += 8) {
                        uint64_t v = hidden_seed ? nx() : (0xEE00000000000000ULL | ((uint64_t) r << 8) | b);
                        memcpy(&T.in_zmm[r][b], &v, 8);
                }
        for (int k = 0; k < 8; k++) T.in_k[k] = hidden_seed ? nx() : 0x0101010101010101ULL * (k + 1);
        // canaries above the frame, pattern below it
        uint64_t *can = (uint64_t *) S.top;
        for (size_t i = 0; i < CANARY_WORDS; i++) can[i] = 0xCA11AB1E00000000ULL + i;
        if (top != S.top) *(uint64_t *) top = 0xCA11AB1EFFFFFFFFULL; // the alignment gap word
        uint64_t call_rsp = top - 8 * nstack;
        memset((void *) (call_rsp - DEAD - 64), pattern, DEAD + 64);
}
static inline Result finish(int nargs)
{
        Stack &S = stack();
        TrampBlock &T = g_tramp;
        Result r;
        int nstack = nargs > 6 ? nargs - 6 : 0;
        r.call_rsp = T.stack_top - 8 * nstack;
        uint64_t *can = (uint64_t *) S.top;
        for (size_t i = 0; i < CANARY_WORDS; i++)
                if (can[i] != 0xCA11AB1E00000000ULL + i) { r.canary_ok = false; r.canary_word = (int) i; break; }
        if (T.stack_top != S.top && *(uint64_t *) T.stack_top != 0xCA11AB1EFFFFFFFFULL) { r.canary_ok = false; r.canary_word = -2; }
        return r;
}
static inline bool host_has_avx512() { return isal::cpu().avx512; }

} // namespace tramp
