// Periodic giant buffers: a 1 MiB block (memfd) mapped back to back, so that multi-GiB contiguous input buffers
// exist at a physical cost of 1 MiB.  Used by C15 (2^29 / 2^32 totals) and by the giant-stream cases of C05/C10.
#pragma once
#include "pbt.hpp"
#include <cstdint>
#include <cstdio>
#include <cstdlib>
#include <sys/mman.h>
#include <sys/syscall.h>
#include <unistd.h>

namespace periodic {
static const uint64_t PERIOD = 1 << 20;
static const uint64_t SPAN = (5ull << 30); // virtual bytes of periodic stream
static inline uint8_t *stream()
{
        static uint8_t *g = nullptr;
        if (g) return g;
        int fd = (int) syscall(SYS_memfd_create, "periodic", 0);
        if (fd < 0 || ftruncate(fd, PERIOD)) { perror("memfd"); exit(3); }
        uint8_t *blk = (uint8_t *) mmap(nullptr, PERIOD, PROT_READ | PROT_WRITE, MAP_SHARED, fd, 0);
        pbt::expand(0xC15C15C15ULL, blk, PERIOD);
        munmap(blk, PERIOD);
        uint8_t *base = (uint8_t *) mmap(nullptr, SPAN + 2 * 4096, PROT_NONE, MAP_PRIVATE | MAP_ANONYMOUS | MAP_NORESERVE, -1, 0);
        if (base == MAP_FAILED) { perror("reserve"); exit(3); }
        base += 4096;
        for (uint64_t o = 0; o < SPAN; o += PERIOD)
                if (mmap(base + o, PERIOD, PROT_READ, MAP_SHARED | MAP_FIXED, fd, 0) == MAP_FAILED) { perror("map period"); exit(3); }
        g = base;
        return g;
}
// A writable 5 GiB region in which every 1 MiB page group aliases the same 1 MiB of memory: a sink for multi-GiB outputs.
// After a sequential write of n bytes, the last min(n, 1 MiB) bytes written are readable at their own addresses.
static inline uint8_t *sink()
{
        static uint8_t *g = nullptr;
        if (g) return g;
        int fd = (int) syscall(SYS_memfd_create, "periodic-sink", 0);
        if (fd < 0 || ftruncate(fd, PERIOD)) { perror("memfd"); exit(3); }
        uint8_t *base = (uint8_t *) mmap(nullptr, SPAN + 2 * 4096, PROT_NONE, MAP_PRIVATE | MAP_ANONYMOUS | MAP_NORESERVE, -1, 0);
        if (base == MAP_FAILED) { perror("reserve"); exit(3); }
        base += 4096;
        for (uint64_t o = 0; o < SPAN; o += PERIOD)
                if (mmap(base + o, PERIOD, PROT_READ | PROT_WRITE, MAP_SHARED | MAP_FIXED, fd, 0) == MAP_FAILED) { perror("map sink"); exit(3); }
        g = base;
        return g;
}
} // namespace periodic
