// Multi-hash engine for C05 (mh_sha1 / mh_sha256) and C10 (mh_sha1 + murmur3 stitched).
#pragma once
#include "../ref/ref_mh.hpp"
#include "arena.hpp"
#include "isal.hpp"
#include "json.hpp"
#include "pbt.hpp"
#include "periodic.hpp"

namespace mh {

enum Kind { MH_SHA1 = 0, MH_SHA256 = 1, MH_MURMUR = 2 };
static inline const char *kind_name(int k) { return k == MH_SHA1 ? "mh_sha1" : k == MH_SHA256 ? "mh_sha256" : "mh_sha1_murmur3_x64_128"; }

typedef int (*init_fn)(void *ctx);
typedef int (*init_seed_fn)(void *ctx, uint64_t seed);
typedef int (*update_fn)(void *ctx, const void *buf, uint32_t len);
typedef int (*final_fn)(void *ctx, void *digest);
typedef int (*final2_fn)(void *ctx, void *digest, void *murmur);

struct Fam {
        int kind;
        std::string fam; // base | sse | avx | avx2 | avx512 | legacy | isal
        void *init = nullptr, *update = nullptr, *finalize = nullptr;
        bool runnable = true;
        std::string label() const { return std::string(kind_name(kind)) + "/" + fam; }
};

static inline std::vector<Fam> families(std::initializer_list<int> kinds)
{
        std::vector<Fam> v;
        for (int k : kinds) {
                std::string n = kind_name(k);
                for (const char *f : { "base", "sse", "avx", "avx2", "avx512", "legacy", "isal" }) {
                        Fam x;
                        x.kind = k;
                        x.fam = f;
                        if (x.fam == "isal") {
                                x.init = isal::sym("isal_" + n + "_init");
                                x.update = isal::sym("isal_" + n + "_update");
                                x.finalize = isal::sym("isal_" + n + "_finalize");
                        } else if (x.fam == "legacy") {
                                x.init = isal::sym(n + "_init");
                                x.update = isal::sym(n + "_update");
                                x.finalize = isal::sym(n + "_finalize");
                        } else {
                                x.init = isal::sym("_" + n + "_init");
                                x.update = isal::sym("_" + n + "_update_" + f);
                                x.finalize = isal::sym("_" + n + "_finalize_" + f);
                        }
                        if (!x.init || !x.update || !x.finalize) continue;
                        x.runnable = isal::host_can_run(f);
                        v.push_back(x);
                }
        }
        return v;
}

struct Piece {
        uint64_t len = 0;
        int place = 0;
        uint32_t shift = 0;
};
struct Case {
        std::string fam;
        uint64_t seed = 1, murmur_seed = 0;
        int prefill = 0;
        int giant = 0; // 1 = the stream is the periodic giant buffer (pieces up to 2^32-1 bytes, total < 2^32)
                       // 3 = same buffer, total >= 2^32: outside the digest's domain, memory safety of the calls only
        std::vector<Piece> pieces;
};
static inline J to_json(const Case &c)
{
        J j = J::obj();
        j.set("fam", c.fam).set("seed", (unsigned long long) c.seed).set("murmur_seed", (unsigned long long) c.murmur_seed).set("prefill", c.prefill).set("giant", c.giant);
        J a = J::arr();
        for (auto &p : c.pieces) {
                J o = J::obj();
                o.set("len", (unsigned long long) p.len).set("place", p.place).set("shift", p.shift);
                a.push(o);
        }
        j.set("pieces", a);
        return j;
}
static inline Case from_json(const J &j)
{
        Case c;
        c.fam = j.at("fam").s;
        c.seed = j.unum("seed", 1);
        c.murmur_seed = j.unum("murmur_seed", 0);
        c.prefill = j.num("prefill", 0);
        c.giant = j.num("giant", 0);
        for (auto &o : j.at("pieces").a) {
                Piece p;
                p.len = o.unum("len", 0);
                p.place = o.num("place", 0);
                p.shift = o.unum("shift", 0);
                c.pieces.push_back(p);
        }
        return c;
}

static inline uint64_t gen_total(uint64_t big)
{
        using namespace pbt;
        switch (weighted({ 2, 10, 6, 6, 16, 12, 3 })) {
        case 0: return 0;
        case 1: return rng<uint64_t>(1, 70);
        case 2: return rng<uint64_t>(1023, 1025);
        case 3: return rng<uint64_t>(1015, 1017);
        case 4: return 1024 * rng<uint64_t>(1, 12) + pick<int>({ 0, 1, 8, 9, -1, -8, -9, -7 });
        case 5: return rng<uint64_t>(71, 65536);
        default: return rng<uint64_t>(1, big);
        }
}
// giant: 0 = no, 1 = a stream just above 2^29 bytes (bit length overflows 32 bits), 2 = a stream just below 2^32 bytes,
//        3 = p carried bytes (1..1023) followed by ONE update of 2^32-q bytes, 1 <= q <= p: the 32-bit sum of the carried and
//            the incoming length wraps to less than one block (every byte of that update is the caller's, it must only be read)
static inline Case gen_case(const Fam &f, uint64_t big, long giant_ppm = 0, int giant = 0)
{
        using namespace pbt;
        Case c;
        if (giant == 0 && giant_ppm > 0 && rng<long>(0, 999999) < giant_ppm) giant = 2;
        if (giant == 3) {
                c.fam = f.label();
                c.seed = 1;
                c.giant = 3;
                c.prefill = rng<int>(0, 255);
                if (f.kind == MH_MURMUR) c.murmur_seed = rng64(0, UINT64_MAX);
                Piece a, b;
                a.len = coin(1, 3) ? pick<uint64_t>({ 1, 2, 1023 }) : rng<uint64_t>(1, 1023);
                b.len = (1ull << 32) - rng<uint64_t>(1, a.len);
                c.pieces.push_back(a);
                c.pieces.push_back(b);
                return c;
        }
        if (giant) {
                // a stream just below 2^32 bytes in 1..4 update calls (single updates up to 2^32-1 bytes)
                c.fam = f.label();
                c.seed = 1;
                c.giant = 1;
                c.prefill = rng<int>(0, 255);
                if (f.kind == MH_MURMUR) c.murmur_seed = rng64(0, UINT64_MAX);
                uint64_t total = giant == 1 ? (1ull << 29) + pick<uint64_t>({ 0, 1, 8, 1015, 1016, 1024, 4097 }) + (coin(1, 3) ? rng<uint64_t>(0, 70000) : 0)
                                            : 0xffffffffull - pick<uint64_t>({ 0, 1, 7, 8, 9, 15, 16, 1023, 1024, 1025 }) - (coin(1, 3) ? rng<uint64_t>(0, 70000) : 0);
                int k = rng<int>(1, 4);
                uint64_t left = total;
                for (int i = 0; i < k - 1; i++) {
                        Piece p;
                        p.len = coin() ? rng<uint64_t>(0, 3000) : rng<uint64_t>(0, left);
                        left -= p.len;
                        c.pieces.push_back(p);
                }
                Piece last;
                last.len = left;
                c.pieces.push_back(last);
                return c;
        }
        c.fam = f.label();
        c.seed = rng64(1, UINT64_MAX - 8);
        c.prefill = rng<int>(0, 255);
        if (f.kind == MH_MURMUR) {
                switch (weighted({ 2, 2, 2, 2, 6 })) {
                case 0: c.murmur_seed = 0; break;
                case 1: c.murmur_seed = (1ULL << 32) + pick<int>({ -1, 0, 1 }); break;
                case 2: c.murmur_seed = 1ULL << 63; break;
                case 3: c.murmur_seed = UINT64_MAX; break;
                default: c.murmur_seed = rng64(0, UINT64_MAX); break;
                }
        }
        uint64_t total = gen_total(big);
        int k = rng<int>(1, 9);
        std::vector<uint64_t> cuts;
        for (int i = 0; i < k - 1; i++) {
                uint64_t x;
                if (total >= 1024 && coin(1, 2)) {
                        // near a 1024 boundary
                        uint64_t b = 1024 * rng<uint64_t>(1, total / 1024);
                        int64_t d = pick<int>({ 0, 1, -1, 7, -7, 63, -63, 64 });
                        int64_t y = (int64_t) b + d;
                        x = y < 0 ? 0 : ((uint64_t) y > total ? total : (uint64_t) y);
                } else x = rng<uint64_t>(0, total);
                cuts.push_back(x);
        }
        cuts.push_back(total);
        std::sort(cuts.begin(), cuts.end());
        uint64_t prev = 0;
        for (uint64_t x : cuts) {
                Piece p;
                p.len = x - prev;
                prev = x;
                p.place = weighted({ 2, 1 });
                p.shift = coin(1, 3) ? rng<uint32_t>(0, 63) : 0;
                c.pieces.push_back(p);
        }
        return c;
}

static inline size_t ctx_size(int kind)
{
        return kind == MH_SHA1 ? sizeof(isal_mh_sha1_ctx) : kind == MH_SHA256 ? sizeof(isal_mh_sha256_ctx) : sizeof(isal_mh_sha1_murmur3_x64_128_ctx);
}

struct Stats {
        bool carry_cross = false, cross = false;
        uint64_t total = 0;
        std::vector<uint8_t> observed; // digest bytes as delivered
};

static inline bool execute(const Case &c, const Fam &f, pbt::Ctx &ctx, Stats &st)
{
        const std::string site = c.fam;
        auto failx = [&](const std::string &k, const std::string &m) { return ctx.fail(k + "|" + site, site + ": " + m); };
        guard::Arena A;
        guard::FaultInfo fi;
        uint8_t *cx = A.alloc("ctx", ctx_size(f.kind), 16, guard::END, c.prefill);
        int rc = 0;
        bool ok = guard::guarded_call(fi, [&] {
                if (f.kind == MH_MURMUR) rc = (int) isal::call_fn(f.init, { (uint64_t) cx, c.murmur_seed });
                else rc = (int) isal::call_fn(f.init, { (uint64_t) cx });
        });
        if (!ok) {
                A.describe(fi);
                return !failx("fault-init", "fault in init: " + fi.where);
        }
        if (rc) return !failx("rc", "init returned " + std::to_string(rc));
        ref::MhRef R(f.kind == MH_SHA256 ? ref::SHA256 : ref::SHA1);
        ref::Murmur3 MR(c.murmur_seed);
        uint64_t st_rng = c.seed | 1, off = 0;
        for (size_t i = 0; i < c.pieces.size(); i++) {
                const Piece &p = c.pieces[i];
                uint8_t *b = c.giant ? periodic::stream() + off : A.alloc("update-buffer", p.len, 1, (guard::Place) p.place, -1, p.shift);
                // stream bytes
                if (!c.giant) {
                        uint64_t x = st_rng;
                        size_t k = 0;
                        while (k < p.len) {
                                x ^= x << 13; x ^= x >> 7; x ^= x << 17;
                                uint64_t v = x * 0x2545F4914F6CDD1DULL;
                                for (int q = 0; q < 8 && k < p.len; q++, k++) b[k] = (uint8_t) (v >> (8 * q));
                        }
                        st_rng = x;
                }
                if (!c.giant) A.set_readonly(b);
                if (c.giant != 3) {
                        R.update(b, p.len);
                        if (f.kind == MH_MURMUR) MR.update(b, p.len);
                }
                uint64_t carried = off % 1024;
                if (p.len && (off / 1024 != (off + p.len) / 1024)) {
                        st.cross = true;
                        if (carried && c.pieces.size() >= 2) st.carry_cross = true;
                }
                ok = guard::guarded_call(fi, [&] { rc = (int) isal::call_fn(f.update, { (uint64_t) cx, (uint64_t) b, (uint64_t) (uint32_t) p.len }); });
                if (!ok) {
                        A.describe(fi);
                        return !failx("fault-update", "fault in update " + std::to_string(i) + " (len " + std::to_string(p.len) + ", stream offset " + std::to_string(off) + "): " + fi.where);
                }
                if (rc) return !failx("rc", "update returned " + std::to_string(rc));
                if (!c.giant) A.release(b);
                off += p.len;
        }
        st.total = off;
        int nw = f.kind == MH_SHA256 ? 8 : 5;
        uint8_t *dg = A.alloc("digest", 4 * nw, 1, guard::END, 0x5e);
        uint8_t *mg = A.alloc("murmur-digest", 16, 1, guard::END, 0x5f);
        ok = guard::guarded_call(fi, [&] {
                if (f.kind == MH_MURMUR) rc = (int) isal::call_fn(f.finalize, { (uint64_t) cx, (uint64_t) dg, (uint64_t) mg });
                else rc = (int) isal::call_fn(f.finalize, { (uint64_t) cx, (uint64_t) dg });
        });
        if (!ok) {
                A.describe(fi);
                return !failx("fault-finalize", "fault in finalize (total " + std::to_string(off) + "): " + fi.where);
        }
        if (rc) return !failx("rc", "finalize returned " + std::to_string(rc));
        std::string cn = A.check_canaries();
        if (!cn.empty() && failx("canary", cn)) return false;
        st.observed.assign(dg, dg + 4 * nw);
        if (f.kind == MH_MURMUR) st.observed.insert(st.observed.end(), mg, mg + 16);
        if (c.giant == 3) return true; // total >= 2^32: the multi-hash definition (C05) does not cover it
        std::vector<uint32_t> want = R.digest_words();
        if (memcmp(dg, want.data(), 4 * nw)) {
                if (failx("digest", "multi-hash digest differs from the definition: total " + std::to_string(off) + " bytes in " + std::to_string(c.pieces.size()) +
                                            " updates, got " + ref::hex(dg, 8) + ".. want " + ref::hex((uint8_t *) want.data(), 8) + ".."))
                        return false;
        }
        if (f.kind == MH_MURMUR) {
                std::vector<uint8_t> mw = MR.digest();
                if (memcmp(mg, mw.data(), 16))
                        if (failx("murmur", "murmur3_x64_128 differs: total " + std::to_string(off) + " seed " + std::to_string(c.murmur_seed) + " got " + ref::hex(mg, 16) +
                                                    " want " + ref::hex(mw)))
                                return false;
        }
        return true;
}

} // namespace mh
