// Catalog of the public isal_* entry points (and their deprecated legacy counterparts):
// for each one a builder that prepares a fully valid call in guarded memory (objects are prepared
// through the internal, un-gated functions so that the catalog also works in a FIPS build whose
// self tests have failed), a description of every argument (used by C16 to null / corrupt them and by
// C13/C16 to know which byte ranges are outputs) and an extractor of the semantic result (used for the
// legacy == isal_ differential).  C13, C16, C18 and C19 are all driven from this table.
#pragma once
#include "../ref/ref_aes.hpp"
#include "../ref/ref_hash.hpp"
#include "aes_engine.hpp"
#include "arena.hpp"
#include "isal.hpp"
#include "pbt.hpp"
#include <functional>

namespace ent {

enum Kind { IN = 0, OUT = 1, OBJ = 2, SCALAR = 3 };
enum Class { APPROVED = 0, NONAPPROVED = 1, OTHER = 2 };

struct ArgDesc {
        const char *name = "";
        Kind kind = SCALAR;
        int null_err = 0;        // error code documented for a NULL value of this pointer (0 = no pointer / NULL harmless)
        bool null_unspecified = false; // for THIS call's scalars the documentation leaves NULL open (e.g. data pointer with len 0)
        uint8_t *ptr = nullptr;  // the valid pointer value
        size_t size = 0;         // bytes the callee may touch through it
};
struct Call {
        std::string entry;
        void *fn = nullptr;
        int nargs = 0;
        uint64_t argv[10] = { 0 };
        ArgDesc desc[10];
        bool returns_int = true;            // isal_ API: int status; legacy may return void / pointer / value
        std::function<std::vector<uint8_t>(uint64_t ret)> result; // semantic outputs after a successful call
};
struct Params {
        uint64_t seed = 1;
        uint64_t len = 64;
        uint64_t aad_len = 16;
        int tag_len = 16;
        int flags = ISAL_HASH_ENTIRE;
        uint32_t w = 16, mask = 0xf, trigger = 0;
        bool legacy = false;
        bool xts_short = false; // allow XTS lengths below one block (legacy: returns at once; isal_: length error)
};
typedef std::function<bool(guard::Arena &, const Params &, Call &)> Builder;
struct Entry {
        std::string name;   // isal_ name
        std::string legacy; // deprecated counterpart ("" if none)
        Class cls;
        std::string group;
        Builder build;
};

static inline void set_ptr(Call &c, int i, const char *name, Kind k, int null_err, uint8_t *p, size_t size, bool unspecified = false)
{
        c.desc[i].name = name; c.desc[i].kind = k; c.desc[i].null_err = null_err; c.desc[i].ptr = p; c.desc[i].size = size; c.desc[i].null_unspecified = unspecified;
        c.argv[i] = (uint64_t) p;
}
static inline void set_scalar(Call &c, int i, const char *name, uint64_t v)
{
        c.desc[i].name = name; c.desc[i].kind = SCALAR; c.argv[i] = v;
}
static inline uint8_t *buf_from(guard::Arena &A, const char *name, const std::vector<uint8_t> &v, size_t align = 1)
{
        uint8_t *p = A.alloc(name, v.size(), align, guard::END);
        if (!v.empty()) memcpy(p, v.data(), v.size());
        return p;
}
static inline std::vector<uint8_t> bytes_of(const void *p, size_t n) { return std::vector<uint8_t>((const uint8_t *) p, (const uint8_t *) p + n); }

// ---------------------------------------------------------------- multi-buffer hashes
static inline void add_hash(std::vector<Entry> &E, int algo)
{
        using namespace isal;
        std::string a = algo_desc[algo].name;
        Class cls = (algo == SHA1 || algo == SHA256 || algo == SHA512) ? APPROVED : NONAPPROVED;
        const AlgoDesc &D = algo_desc[algo];
        auto internal_init = [a]() { return (hash_init_fn) sym("_" + a + "_ctx_mgr_init"); };
        auto internal_submit = [a]() { return (hash_submit_fn) sym("_" + a + "_ctx_mgr_submit"); };
        auto internal_flush = [a]() { return (hash_flush_fn) sym("_" + a + "_ctx_mgr_flush"); };

        E.push_back({ "isal_" + a + "_ctx_mgr_init", a + "_ctx_mgr_init", cls, "hash", [=](guard::Arena &A, const Params &p, Call &c) {
                             c.entry = p.legacy ? a + "_ctx_mgr_init" : "isal_" + a + "_ctx_mgr_init";
                             c.fn = sym(c.entry);
                             c.nargs = 1;
                             c.returns_int = !p.legacy;
                             uint8_t *mgr = A.alloc("mgr", D.mgr_size, 64, guard::END, (int) (p.seed & 0xff));
                             set_ptr(c, 0, "mgr", OBJ, ISAL_CRYPTO_ERR_NULL_MGR, mgr, D.mgr_size);
                             // result: an initialised manager must be usable -> hash one message through the internal entry points
                             c.result = [=, &A](uint64_t) {
                                     uint8_t *cx = A.alloc("ctx", D.ctx_size, 64, guard::END, 0);
                                     ctx_init(algo, cx);
                                     std::vector<uint8_t> m = pbt::expandv(p.seed, 200);
                                     void *r = internal_submit()(mgr, cx, m.data(), 200, ISAL_HASH_ENTIRE);
                                     while (!r) r = internal_flush()(mgr);
                                     return ref::digest_from_words(algo, ctx_digest(algo, cx));
                             };
                             return c.fn != nullptr;
                     } });
        E.push_back({ "isal_" + a + "_ctx_mgr_submit", a + "_ctx_mgr_submit", cls, "hash", [=](guard::Arena &A, const Params &p, Call &c) {
                             c.entry = p.legacy ? a + "_ctx_mgr_submit" : "isal_" + a + "_ctx_mgr_submit";
                             c.fn = sym(c.entry);
                             c.returns_int = !p.legacy;
                             uint8_t *mgr = A.alloc("mgr", D.mgr_size, 64, guard::END, (int) (p.seed & 0xff));
                             internal_init()(mgr);
                             uint8_t *cx = A.alloc("ctx", D.ctx_size, 64, guard::END, 0);
                             ctx_init(algo, cx);
                             uint8_t *outp = A.alloc("ctx_out", 8, 8, guard::END, 0x41);
                             std::vector<uint8_t> m = pbt::expandv(p.seed, p.len);
                             uint8_t *b = buf_from(A, "buffer", m);
                             int flags = p.flags & 3;
                             if (flags == ISAL_HASH_UPDATE || flags == ISAL_HASH_LAST) flags = ISAL_HASH_ENTIRE; // a fresh context accepts FIRST / ENTIRE only
                             int i = 0;
                             set_ptr(c, i++, "mgr", OBJ, ISAL_CRYPTO_ERR_NULL_MGR, mgr, D.mgr_size);
                             set_ptr(c, i++, "ctx_in", OBJ, ISAL_CRYPTO_ERR_NULL_CTX, cx, D.ctx_size);
                             if (!p.legacy) set_ptr(c, i++, "ctx_out", OUT, ISAL_CRYPTO_ERR_NULL_CTX, outp, 8);
                             // NULL buffer: documented as acceptable for FIRST/LAST; for ENTIRE/UPDATE it is an error (sm3/md5 key it on len)
                             set_ptr(c, i++, "buffer", IN, ISAL_CRYPTO_ERR_NULL_SRC, b, p.len, flags == ISAL_HASH_FIRST || p.len == 0);
                             set_scalar(c, i++, "len", p.len);
                             set_scalar(c, i++, "flags", flags);
                             c.nargs = i;
                             c.result = [=](uint64_t ret) {
                                     void *r = p.legacy ? (void *) ret : *(void **) outp;
                                     int guardn = 0;
                                     while (!r && guardn++ < 64) r = internal_flush()(mgr);
                                     std::vector<uint8_t> o;
                                     if (flags == ISAL_HASH_ENTIRE) o = ref::digest_from_words(algo, ctx_digest(algo, cx));
                                     o.push_back((uint8_t) ctx_status(algo, cx));
                                     o.push_back((uint8_t) ctx_error(algo, cx));
                                     return o;
                             };
                             return c.fn != nullptr;
                     } });
        E.push_back({ "isal_" + a + "_ctx_mgr_flush", a + "_ctx_mgr_flush", cls, "hash", [=](guard::Arena &A, const Params &p, Call &c) {
                             c.entry = p.legacy ? a + "_ctx_mgr_flush" : "isal_" + a + "_ctx_mgr_flush";
                             c.fn = sym(c.entry);
                             c.returns_int = !p.legacy;
                             uint8_t *mgr = A.alloc("mgr", D.mgr_size, 64, guard::END, (int) (p.seed & 0xff));
                             internal_init()(mgr);
                             uint8_t *cx = A.alloc("ctx", D.ctx_size, 64, guard::END, 0);
                             ctx_init(algo, cx);
                             uint8_t *outp = A.alloc("ctx_out", 8, 8, guard::END, 0x41);
                             std::vector<uint8_t> m = pbt::expandv(p.seed, p.len);
                             uint8_t *b = buf_from(A, "buffer", m);
                             if (p.len) internal_submit()(mgr, cx, b, (uint32_t) p.len, ISAL_HASH_ENTIRE); // may complete at once for synchronous families
                             int i = 0;
                             set_ptr(c, i++, "mgr", OBJ, ISAL_CRYPTO_ERR_NULL_MGR, mgr, D.mgr_size);
                             if (!p.legacy) set_ptr(c, i++, "ctx_out", OUT, ISAL_CRYPTO_ERR_NULL_CTX, outp, 8);
                             c.nargs = i;
                             c.result = [=](uint64_t ret) {
                                     void *r = p.legacy ? (void *) ret : *(void **) outp;
                                     std::vector<uint8_t> o;
                                     o.push_back(r ? 1 : 0);
                                     if (p.len) {
                                             int guardn = 0;
                                             while (ctx_status(algo, cx) != ISAL_HASH_CTX_STS_COMPLETE && guardn++ < 64) internal_flush()(mgr);
                                             auto d = ref::digest_from_words(algo, ctx_digest(algo, cx));
                                             o.insert(o.end(), d.begin(), d.end());
                                     }
                                     return o;
                             };
                             return c.fn != nullptr;
                     } });
}

// ---------------------------------------------------------------- AES
static inline void add_aes(std::vector<Entry> &E)
{
        using namespace isal;
        // ---- key expansion
        for (int bits : { 128, 192, 256 }) {
                std::string b = std::to_string(bits);
                E.push_back({ "isal_aes_keyexp_" + b, "aes_keyexp_" + b, APPROVED, "keyexp", [=](guard::Arena &A, const Params &p, Call &c) {
                                     c.entry = (p.legacy ? "aes_keyexp_" : "isal_aes_keyexp_") + b;
                                     c.fn = sym(c.entry);
                                     c.returns_int = !p.legacy;
                                     size_t n = 16 * (bits / 32 + 7);
                                     uint8_t *k = buf_from(A, "key", pbt::expandv(p.seed, bits / 8));
                                     uint8_t *e = A.alloc("exp_key_enc", n, 16, guard::END, 0x3c), *d = A.alloc("exp_key_dec", n, 16, guard::END, 0xc3);
                                     set_ptr(c, 0, "key", IN, ISAL_CRYPTO_ERR_NULL_KEY, k, bits / 8);
                                     set_ptr(c, 1, "exp_key_enc", OUT, ISAL_CRYPTO_ERR_NULL_EXP_KEY, e, n);
                                     set_ptr(c, 2, "exp_key_dec", OUT, ISAL_CRYPTO_ERR_NULL_EXP_KEY, d, n);
                                     c.nargs = 3;
                                     c.result = [=](uint64_t) {
                                             auto o = bytes_of(e, n), o2 = bytes_of(d, n);
                                             o.insert(o.end(), o2.begin(), o2.end());
                                             return o;
                                     };
                                     return c.fn != nullptr;
                             } });
        }
        // ---- CBC
        for (int dec = 0; dec < 2; dec++)
                for (int bits : { 128, 192, 256 }) {
                        std::string n = std::string(dec ? "dec_" : "enc_") + std::to_string(bits);
                        E.push_back({ "isal_aes_cbc_" + n, "aes_cbc_" + n, APPROVED, "cbc", [=](guard::Arena &A, const Params &p, Call &c) {
                                             c.entry = (p.legacy ? "aes_cbc_" : "isal_aes_cbc_") + n;
                                             c.fn = sym(c.entry);
                                             c.returns_int = !p.legacy || !dec; // legacy enc returns int, legacy dec void
                                             uint64_t len = p.len & ~15ULL;
                                             std::vector<uint8_t> key = pbt::expandv(p.seed, bits / 8);
                                             ref::Aes ra(key.data(), bits);
                                             uint8_t *keys = buf_from(A, "keys", dec ? ra.dec_schedule() : ra.enc_schedule(), 16);
                                             uint8_t *iv = buf_from(A, "iv", pbt::expandv(p.seed + 1, 16), 16);
                                             uint8_t *in = buf_from(A, "in", pbt::expandv(p.seed + 2, len));
                                             uint8_t *out = A.alloc("out", len, 1, guard::END, 0x6d);
                                             set_ptr(c, 0, "in", IN, ISAL_CRYPTO_ERR_NULL_SRC, in, len);
                                             set_ptr(c, 1, "iv", IN, ISAL_CRYPTO_ERR_NULL_IV, iv, 16);
                                             set_ptr(c, 2, "keys", IN, ISAL_CRYPTO_ERR_NULL_EXP_KEY, keys, 16 * (bits / 32 + 7));
                                             set_ptr(c, 3, "out", OUT, ISAL_CRYPTO_ERR_NULL_DST, out, len);
                                             set_scalar(c, 4, "len_bytes", len);
                                             c.nargs = 5;
                                             c.result = [=](uint64_t) { return bytes_of(out, len); };
                                             return c.fn != nullptr;
                                     } });
                }
        // ---- XTS
        for (int bits : { 128, 256 })
                for (int dec = 0; dec < 2; dec++)
                        for (int ex = 0; ex < 2; ex++) {
                                std::string b = std::to_string(bits), ed = dec ? "dec" : "enc";
                                std::string iname = "isal_aes_xts_" + ed + "_" + b + (ex ? "_expanded_key" : ""), lname = "XTS_AES_" + b + "_" + ed + (ex ? "_expanded_key" : "");
                                E.push_back({ iname, lname, APPROVED, "xts", [=](guard::Arena &A, const Params &p, Call &c) {
                                                     c.entry = p.legacy ? lname : iname;
                                                     c.fn = sym(c.entry);
                                                     c.returns_int = !p.legacy;
                                                     uint64_t len = (p.len < 16 && !p.xts_short) ? 16 : p.len;
                                                     std::vector<uint8_t> k1 = pbt::expandv(p.seed, bits / 8), k2 = pbt::expandv(p.seed + 1, bits / 8);
                                                     ref::Aes a1(k1.data(), bits), a2(k2.data(), bits);
                                                     if (ex) { k2 = a2.enc_schedule(); k1 = dec ? a1.dec_schedule() : a1.enc_schedule(); }
                                                     int kerr = ex ? ISAL_CRYPTO_ERR_NULL_EXP_KEY : ISAL_CRYPTO_ERR_NULL_KEY;
                                                     uint8_t *k2b = buf_from(A, "k2", k2), *k1b = buf_from(A, "k1", k1), *tw = buf_from(A, "initial_tweak", pbt::expandv(p.seed + 2, 16));
                                                     uint8_t *in = buf_from(A, "in", pbt::expandv(p.seed + 3, len)), *out = A.alloc("out", len, 1, guard::END, 0x6b);
                                                     set_ptr(c, 0, "k2", IN, kerr, k2b, k2.size());
                                                     set_ptr(c, 1, "k1", IN, kerr, k1b, k1.size());
                                                     set_ptr(c, 2, "initial_tweak", IN, ISAL_CRYPTO_ERR_XTS_NULL_TWEAK, tw, 16);
                                                     set_scalar(c, 3, "len_bytes", len);
                                                     set_ptr(c, 4, "in", IN, ISAL_CRYPTO_ERR_NULL_SRC, in, len);
                                                     set_ptr(c, 5, "out", OUT, ISAL_CRYPTO_ERR_NULL_DST, out, len);
                                                     c.nargs = 6;
                                                     c.result = [=](uint64_t) { return len < 16 ? std::vector<uint8_t>() : bytes_of(out, len); };
                                                     return c.fn != nullptr;
                                             } });
                        }
        // ---- GCM
        for (int bits : { 128, 256 }) {
                std::string b = std::to_string(bits);
                auto prep_kd = [=](guard::Arena &A, uint64_t seed) {
                        uint8_t *kd = A.alloc("key_data", sizeof(isal_gcm_key_data), 16, guard::END, 0x11);
                        std::vector<uint8_t> key = pbt::expandv(seed, bits / 8);
                        ((ae::gcm_pre_fn) sym("_aes_gcm_pre_" + b))(key.data(), kd);
                        return kd;
                };
                E.push_back({ "isal_aes_gcm_pre_" + b, "aes_gcm_pre_" + b, APPROVED, "gcm", [=](guard::Arena &A, const Params &p, Call &c) {
                                     c.entry = (p.legacy ? "aes_gcm_pre_" : "isal_aes_gcm_pre_") + b;
                                     c.fn = sym(c.entry);
                                     c.returns_int = !p.legacy;
                                     uint8_t *k = buf_from(A, "key", pbt::expandv(p.seed, bits / 8));
                                     uint8_t *kd = A.alloc("key_data", sizeof(isal_gcm_key_data), 16, guard::END, 0x11);
                                     set_ptr(c, 0, "key", IN, ISAL_CRYPTO_ERR_NULL_KEY, k, bits / 8);
                                     set_ptr(c, 1, "key_data", OUT, ISAL_CRYPTO_ERR_NULL_EXP_KEY, kd, sizeof(isal_gcm_key_data));
                                     c.nargs = 2;
                                     // the table layout beyond the round keys is family specific; the semantic result is: round keys + usable for encryption
                                     c.result = [=, &A](uint64_t) {
                                             auto o = bytes_of(kd, 16 * (bits / 32 + 7));
                                             uint8_t *cd = A.alloc("cd", sizeof(isal_gcm_context_data), 16, guard::END, 0);
                                             uint8_t iv[12] = { 1, 2, 3 }, tag[16], out[32], in[32] = { 9 };
                                             ((ae::gcm_oneshot_fn) sym("_aes_gcm_enc_" + b))(kd, cd, out, in, 32, iv, in, 5, tag, 16);
                                             o.insert(o.end(), out, out + 32);
                                             o.insert(o.end(), tag, tag + 16);
                                             return o;
                                     };
                                     return c.fn != nullptr;
                             } });
                E.push_back({ "isal_aes_gcm_init_" + b, "aes_gcm_init_" + b, APPROVED, "gcm", [=](guard::Arena &A, const Params &p, Call &c) {
                                     c.entry = (p.legacy ? "aes_gcm_init_" : "isal_aes_gcm_init_") + b;
                                     c.fn = sym(c.entry);
                                     c.returns_int = !p.legacy;
                                     uint8_t *kd = prep_kd(A, p.seed);
                                     uint8_t *cd = A.alloc("context_data", sizeof(isal_gcm_context_data), 16, guard::END, 0x22);
                                     uint8_t *iv = buf_from(A, "iv", pbt::expandv(p.seed + 1, 12)), *aad = buf_from(A, "aad", pbt::expandv(p.seed + 2, p.aad_len));
                                     set_ptr(c, 0, "key_data", IN, ISAL_CRYPTO_ERR_NULL_EXP_KEY, kd, sizeof(isal_gcm_key_data));
                                     set_ptr(c, 1, "context_data", OBJ, ISAL_CRYPTO_ERR_NULL_CTX, cd, sizeof(isal_gcm_context_data));
                                     set_ptr(c, 2, "iv", IN, ISAL_CRYPTO_ERR_NULL_IV, iv, 12);
                                     set_ptr(c, 3, "aad", IN, ISAL_CRYPTO_ERR_NULL_AAD, aad, p.aad_len, p.aad_len == 0);
                                     set_scalar(c, 4, "aad_len", p.aad_len);
                                     c.nargs = 5;
                                     // the context is opaque: its later behaviour (update + finalize through the internal entry points) is the result
                                     c.result = [=](uint64_t) {
                                             std::vector<uint8_t> m = pbt::expandv(p.seed + 5, 45), o(45 + 16);
                                             ((ae::gcm_update_fn) sym("_aes_gcm_enc_" + b + "_update"))(kd, cd, o.data(), m.data(), 45);
                                             ((ae::gcm_final_fn) sym("_aes_gcm_enc_" + b + "_finalize"))(kd, cd, o.data() + 45, 16);
                                             return o;
                                     };
                                     return c.fn != nullptr;
                             } });
                for (int dec = 0; dec < 2; dec++) {
                        std::string ed = dec ? "dec" : "enc";
                        for (int nt = 0; nt < 2; nt++) {
                                std::string sfx = nt ? "_nt" : "";
                                E.push_back({ "isal_aes_gcm_" + ed + "_" + b + sfx, "aes_gcm_" + ed + "_" + b + sfx, APPROVED, "gcm", [=](guard::Arena &A, const Params &p, Call &c) {
                                                     c.entry = (p.legacy ? "aes_gcm_" : "isal_aes_gcm_") + ed + "_" + b + sfx;
                                                     c.fn = sym(c.entry);
                                                     c.returns_int = !p.legacy;
                                                     uint8_t *kd = prep_kd(A, p.seed);
                                                     uint8_t *cd = A.alloc("context_data", sizeof(isal_gcm_context_data), 16, guard::END, 0x22);
                                                     uint8_t *iv = buf_from(A, "iv", pbt::expandv(p.seed + 1, 12)), *aad = buf_from(A, "aad", pbt::expandv(p.seed + 2, p.aad_len));
                                                     uint8_t *in = buf_from(A, "in", pbt::expandv(p.seed + 3, p.len), 64), *out = A.alloc("out", p.len, 64, guard::END, 0x77);
                                                     uint8_t *tag = A.alloc("auth_tag", p.tag_len, 1, guard::END, 0x99);
                                                     set_ptr(c, 0, "key_data", IN, ISAL_CRYPTO_ERR_NULL_EXP_KEY, kd, sizeof(isal_gcm_key_data));
                                                     set_ptr(c, 1, "context_data", OBJ, ISAL_CRYPTO_ERR_NULL_CTX, cd, sizeof(isal_gcm_context_data));
                                                     set_ptr(c, 2, "out", OUT, ISAL_CRYPTO_ERR_NULL_DST, out, p.len, p.len == 0);
                                                     set_ptr(c, 3, "in", IN, ISAL_CRYPTO_ERR_NULL_SRC, in, p.len, p.len == 0);
                                                     set_scalar(c, 4, "len", p.len);
                                                     set_ptr(c, 5, "iv", IN, ISAL_CRYPTO_ERR_NULL_IV, iv, 12);
                                                     set_ptr(c, 6, "aad", IN, ISAL_CRYPTO_ERR_NULL_AAD, aad, p.aad_len, p.aad_len == 0);
                                                     set_scalar(c, 7, "aad_len", p.aad_len);
                                                     set_ptr(c, 8, "auth_tag", OUT, ISAL_CRYPTO_ERR_NULL_AUTH, tag, p.tag_len);
                                                     set_scalar(c, 9, "auth_tag_len", p.tag_len);
                                                     c.nargs = 10;
                                                     c.result = [=](uint64_t) {
                                                             auto o = bytes_of(out, p.len), t = bytes_of(tag, p.tag_len);
                                                             o.insert(o.end(), t.begin(), t.end());
                                                             return o;
                                                     };
                                                     return c.fn != nullptr;
                                             } });
                                E.push_back({ "isal_aes_gcm_" + ed + "_" + b + "_update" + sfx, "aes_gcm_" + ed + "_" + b + "_update" + sfx, APPROVED, "gcm",
                                              [=](guard::Arena &A, const Params &p, Call &c) {
                                                      c.entry = (p.legacy ? "aes_gcm_" : "isal_aes_gcm_") + ed + "_" + b + "_update" + sfx;
                                                      c.fn = sym(c.entry);
                                                      c.returns_int = !p.legacy;
                                                      uint8_t *kd = prep_kd(A, p.seed);
                                                      uint8_t *cd = A.alloc("context_data", sizeof(isal_gcm_context_data), 16, guard::END, 0x22);
                                                      std::vector<uint8_t> iv = pbt::expandv(p.seed + 1, 12), aad = pbt::expandv(p.seed + 2, p.aad_len);
                                                      ((ae::gcm_init_fn) sym("_aes_gcm_init_" + b))(kd, cd, iv.data(), aad.data(), p.aad_len);
                                                      uint8_t *in = buf_from(A, "in", pbt::expandv(p.seed + 3, p.len), 64), *out = A.alloc("out", p.len, 64, guard::END, 0x77);
                                                      set_ptr(c, 0, "key_data", IN, ISAL_CRYPTO_ERR_NULL_EXP_KEY, kd, sizeof(isal_gcm_key_data));
                                                      set_ptr(c, 1, "context_data", OBJ, ISAL_CRYPTO_ERR_NULL_CTX, cd, sizeof(isal_gcm_context_data));
                                                      set_ptr(c, 2, "out", OUT, ISAL_CRYPTO_ERR_NULL_DST, out, p.len, p.len == 0);
                                                      set_ptr(c, 3, "in", IN, ISAL_CRYPTO_ERR_NULL_SRC, in, p.len, p.len == 0);
                                                      set_scalar(c, 4, "len", p.len);
                                                      c.nargs = 5;
                                                      c.result = [=](uint64_t) {
                                                              auto o = bytes_of(out, p.len);
                                                              uint8_t t[16];
                                                              ((ae::gcm_final_fn) sym("_aes_gcm_" + ed + "_" + b + "_finalize"))(kd, cd, t, 16);
                                                              o.insert(o.end(), t, t + 16);
                                                              return o;
                                                      };
                                                      return c.fn != nullptr;
                                              } });
                        }
                        E.push_back({ "isal_aes_gcm_" + ed + "_" + b + "_finalize", "aes_gcm_" + ed + "_" + b + "_finalize", APPROVED, "gcm", [=](guard::Arena &A, const Params &p, Call &c) {
                                             c.entry = (p.legacy ? "aes_gcm_" : "isal_aes_gcm_") + ed + "_" + b + "_finalize";
                                             c.fn = sym(c.entry);
                                             c.returns_int = !p.legacy;
                                             uint8_t *kd = prep_kd(A, p.seed);
                                             uint8_t *cd = A.alloc("context_data", sizeof(isal_gcm_context_data), 16, guard::END, 0x22);
                                             std::vector<uint8_t> iv = pbt::expandv(p.seed + 1, 12), aad = pbt::expandv(p.seed + 2, p.aad_len), d = pbt::expandv(p.seed + 3, p.len), o(p.len + 16);
                                             ((ae::gcm_init_fn) sym("_aes_gcm_init_" + b))(kd, cd, iv.data(), aad.data(), p.aad_len);
                                             ((ae::gcm_update_fn) sym("_aes_gcm_" + ed + "_" + b + "_update"))(kd, cd, o.data(), d.data(), p.len);
                                             uint8_t *tag = A.alloc("auth_tag", p.tag_len, 1, guard::END, 0x99);
                                             set_ptr(c, 0, "key_data", IN, ISAL_CRYPTO_ERR_NULL_EXP_KEY, kd, sizeof(isal_gcm_key_data));
                                             set_ptr(c, 1, "context_data", OBJ, ISAL_CRYPTO_ERR_NULL_CTX, cd, sizeof(isal_gcm_context_data));
                                             set_ptr(c, 2, "auth_tag", OUT, ISAL_CRYPTO_ERR_NULL_AUTH, tag, p.tag_len);
                                             set_scalar(c, 3, "auth_tag_len", p.tag_len);
                                             c.nargs = 4;
                                             c.result = [=](uint64_t) { return bytes_of(tag, p.tag_len); };
                                             return c.fn != nullptr;
                                     } });
                }
        }
}

// ---------------------------------------------------------------- multi-hash, rolling hash, misc
static inline void add_mh(std::vector<Entry> &E)
{
        using namespace isal;
        struct K { const char *n; size_t ctx; int dwords; bool murmur; };
        static const K kinds[] = { { "mh_sha1", sizeof(isal_mh_sha1_ctx), 5, false }, { "mh_sha256", sizeof(isal_mh_sha256_ctx), 8, false },
                                   { "mh_sha1_murmur3_x64_128", sizeof(isal_mh_sha1_murmur3_x64_128_ctx), 5, true } };
        for (const K &k : kinds) {
                std::string n = k.n;
                size_t cs = k.ctx;
                int dw = k.dwords;
                bool mur = k.murmur;
                auto iinit = [=](uint8_t *cx, uint64_t seed) {
                        if (mur) ((int (*)(void *, uint64_t)) sym("_" + n + "_init"))(cx, seed);
                        else ((int (*)(void *)) sym("_" + n + "_init"))(cx);
                };
                E.push_back({ "isal_" + n + "_init", n + "_init", NONAPPROVED, "mh", [=](guard::Arena &A, const Params &p, Call &c) {
                                     c.entry = (p.legacy ? "" : "isal_") + n + "_init";
                                     c.fn = sym(c.entry);
                                     uint8_t *cx = A.alloc("ctx", cs, 16, guard::END, (int) (p.seed & 0xff));
                                     set_ptr(c, 0, "ctx", OBJ, ISAL_CRYPTO_ERR_NULL_CTX, cx, cs);
                                     c.nargs = 1;
                                     if (mur) { set_scalar(c, 1, "murmur_seed", p.seed * 0x9E3779B97F4A7C15ULL); c.nargs = 2; }
                                     c.result = [=](uint64_t) {
                                             // an initialised context must be usable
                                             std::vector<uint8_t> m = pbt::expandv(p.seed, 1500), o(4 * dw + 16);
                                             ((int (*)(void *, const void *, uint32_t)) sym("_" + n + "_update"))(cx, m.data(), 1500);
                                             if (mur) ((int (*)(void *, void *, void *)) sym("_" + n + "_finalize"))(cx, o.data(), o.data() + 4 * dw);
                                             else ((int (*)(void *, void *)) sym("_" + n + "_finalize"))(cx, o.data());
                                             return o;
                                     };
                                     return c.fn != nullptr;
                             } });
                E.push_back({ "isal_" + n + "_update", n + "_update", NONAPPROVED, "mh", [=](guard::Arena &A, const Params &p, Call &c) {
                                     c.entry = (p.legacy ? "" : "isal_") + n + "_update";
                                     c.fn = sym(c.entry);
                                     uint8_t *cx = A.alloc("ctx", cs, 16, guard::END, (int) (p.seed & 0xff));
                                     iinit(cx, p.seed);
                                     uint8_t *b = buf_from(A, "buffer", pbt::expandv(p.seed + 1, p.len));
                                     set_ptr(c, 0, "ctx", OBJ, ISAL_CRYPTO_ERR_NULL_CTX, cx, cs);
                                     set_ptr(c, 1, "buffer", IN, ISAL_CRYPTO_ERR_NULL_SRC, b, p.len, p.len == 0);
                                     set_scalar(c, 2, "len", p.len);
                                     c.nargs = 3;
                                     c.result = [=](uint64_t) {
                                             std::vector<uint8_t> o(4 * dw + 16);
                                             if (mur) ((int (*)(void *, void *, void *)) sym("_" + n + "_finalize"))(cx, o.data(), o.data() + 4 * dw);
                                             else ((int (*)(void *, void *)) sym("_" + n + "_finalize"))(cx, o.data());
                                             return o;
                                     };
                                     return c.fn != nullptr;
                             } });
                E.push_back({ "isal_" + n + "_finalize", n + "_finalize", NONAPPROVED, "mh", [=](guard::Arena &A, const Params &p, Call &c) {
                                     c.entry = (p.legacy ? "" : "isal_") + n + "_finalize";
                                     c.fn = sym(c.entry);
                                     uint8_t *cx = A.alloc("ctx", cs, 16, guard::END, (int) (p.seed & 0xff));
                                     iinit(cx, p.seed);
                                     std::vector<uint8_t> m = pbt::expandv(p.seed + 1, p.len);
                                     ((int (*)(void *, const void *, uint32_t)) sym("_" + n + "_update"))(cx, m.data(), (uint32_t) p.len);
                                     uint8_t *d = A.alloc("digest", 4 * dw, 4, guard::END, 0x5e), *md = A.alloc("murmur_digest", 16, 4, guard::END, 0x5f);
                                     set_ptr(c, 0, "ctx", OBJ, ISAL_CRYPTO_ERR_NULL_CTX, cx, cs);
                                     set_ptr(c, 1, "digest", OUT, ISAL_CRYPTO_ERR_NULL_AUTH, d, 4 * dw);
                                     c.nargs = 2;
                                     if (mur) { set_ptr(c, 2, "murmur3_digest", OUT, ISAL_CRYPTO_ERR_NULL_AUTH, md, 16); c.nargs = 3; }
                                     c.result = [=](uint64_t) {
                                             auto o = bytes_of(d, 4 * dw), o2 = bytes_of(md, 16);
                                             if (mur) o.insert(o.end(), o2.begin(), o2.end());
                                             return o;
                                     };
                                     return c.fn != nullptr;
                             } });
        }
}

static inline void add_rolling(std::vector<Entry> &E)
{
        using namespace isal;
        size_t ss = sizeof(isal_rh_state2);
        E.push_back({ "isal_rolling_hash2_init", "rolling_hash2_init", NONAPPROVED, "rolling", [=](guard::Arena &A, const Params &p, Call &c) {
                             c.entry = p.legacy ? "rolling_hash2_init" : "isal_rolling_hash2_init";
                             c.fn = sym(c.entry);
                             uint8_t *st = A.alloc("state", ss, 8, guard::END, (int) (p.seed & 0xff));
                             set_ptr(c, 0, "state", OBJ, ISAL_CRYPTO_ERR_NULL_CTX, st, ss);
                             set_scalar(c, 1, "w", p.w);
                             c.nargs = 2;
                             c.result = [=](uint64_t) {
                                     isal_rh_state2 *s = (isal_rh_state2 *) st;
                                     auto o = bytes_of(s->table1, sizeof s->table1), o2 = bytes_of(s->table2, sizeof s->table2);
                                     o.insert(o.end(), o2.begin(), o2.end());
                                     o.push_back((uint8_t) s->w);
                                     return o;
                             };
                             return c.fn != nullptr;
                     } });
        E.push_back({ "isal_rolling_hash2_reset", "rolling_hash2_reset", NONAPPROVED, "rolling", [=](guard::Arena &A, const Params &p, Call &c) {
                             c.entry = p.legacy ? "rolling_hash2_reset" : "isal_rolling_hash2_reset";
                             c.fn = sym(c.entry);
                             c.returns_int = !p.legacy;
                             uint8_t *st = A.alloc("state", ss, 8, guard::END, (int) (p.seed & 0xff));
                             ((int (*)(void *, uint32_t)) sym("_rolling_hash2_init"))(st, p.w);
                             uint8_t *ib = buf_from(A, "init_bytes", pbt::expandv(p.seed, p.w));
                             set_ptr(c, 0, "state", OBJ, ISAL_CRYPTO_ERR_NULL_CTX, st, ss);
                             set_ptr(c, 1, "init_bytes", IN, ISAL_CRYPTO_ERR_NULL_INIT_VAL, ib, p.w);
                             c.nargs = 2;
                             c.result = [=](uint64_t) {
                                     isal_rh_state2 *s = (isal_rh_state2 *) st;
                                     auto o = bytes_of(&s->hash, 8), o2 = bytes_of(s->history, p.w);
                                     o.insert(o.end(), o2.begin(), o2.end());
                                     return o;
                             };
                             return c.fn != nullptr;
                     } });
        E.push_back({ "isal_rolling_hash2_run", "rolling_hash2_run", NONAPPROVED, "rolling", [=](guard::Arena &A, const Params &p, Call &c) {
                             c.entry = p.legacy ? "rolling_hash2_run" : "isal_rolling_hash2_run";
                             c.fn = sym(c.entry);
                             uint8_t *st = A.alloc("state", ss, 8, guard::END, (int) (p.seed & 0xff));
                             ((int (*)(void *, uint32_t)) sym("_rolling_hash2_init"))(st, p.w);
                             std::vector<uint8_t> ib = pbt::expandv(p.seed, p.w);
                             ((void (*)(void *, uint8_t *)) sym("_rolling_hash2_reset"))(st, ib.data());
                             uint8_t *b = buf_from(A, "buffer", pbt::expandv(p.seed + 1, p.len));
                             uint8_t *off = A.alloc("offset", 4, 4, guard::END, 0x2e), *mt = A.alloc("match", 4, 4, guard::END, 0x3e);
                             set_ptr(c, 0, "state", OBJ, ISAL_CRYPTO_ERR_NULL_CTX, st, ss);
                             set_ptr(c, 1, "buffer", IN, ISAL_CRYPTO_ERR_NULL_SRC, b, p.len);
                             set_scalar(c, 2, "max_len", p.len);
                             set_scalar(c, 3, "mask", p.mask);
                             set_scalar(c, 4, "trigger", p.trigger & p.mask);
                             set_ptr(c, 5, "offset", OUT, ISAL_CRYPTO_ERR_NULL_OFFSET, off, 4);
                             c.nargs = 6;
                             if (!p.legacy) { set_ptr(c, 6, "match", OUT, ISAL_CRYPTO_ERR_NULL_MATCH, mt, 4); c.nargs = 7; }
                             bool leg = p.legacy;
                             c.result = [=](uint64_t ret) {
                                     isal_rh_state2 *s = (isal_rh_state2 *) st;
                                     auto o = bytes_of(off, 4), o2 = bytes_of(&s->hash, 8);
                                     o.insert(o.end(), o2.begin(), o2.end());
                                     o.push_back(leg ? (uint8_t) ret : *(uint8_t *) mt);
                                     return o;
                             };
                             return c.fn != nullptr;
                     } });
        E.push_back({ "isal_rolling_hashx_mask_gen", "rolling_hashx_mask_gen", NONAPPROVED, "rolling", [=](guard::Arena &A, const Params &p, Call &c) {
                             c.entry = p.legacy ? "rolling_hashx_mask_gen" : "isal_rolling_hashx_mask_gen";
                             c.fn = sym(c.entry);
                             uint8_t *m = A.alloc("mask", 4, 4, guard::END, 0x1e);
                             set_scalar(c, 0, "mean", (uint32_t) (p.seed >> 7) | 1);
                             set_scalar(c, 1, "shift", p.seed % 32);
                             c.nargs = 2;
                             if (!p.legacy) { set_ptr(c, 2, "mask", OUT, ISAL_CRYPTO_ERR_NULL_MASK, m, 4); c.nargs = 3; }
                             bool leg = p.legacy;
                             c.result = [=](uint64_t ret) {
                                     uint32_t v = leg ? (uint32_t) ret : *(uint32_t *) m;
                                     return bytes_of(&v, 4);
                             };
                             return c.fn != nullptr;
                     } });
}

static inline void add_misc(std::vector<Entry> &E)
{
        for (const char *n : { "isal_self_tests", "isal_crypto_get_version", "isal_crypto_get_version_str" }) {
                std::string name = n;
                E.push_back({ name, "", OTHER, "misc", [=](guard::Arena &, const Params &, Call &c) {
                                     c.entry = name;
                                     c.fn = isal::sym(name);
                                     c.nargs = 0;
                                     c.returns_int = name == "isal_self_tests";
                                     c.result = [](uint64_t r) { return bytes_of(&r, 4); };
                                     return c.fn != nullptr;
                             } });
        }
}

static inline std::vector<Entry> all_entries()
{
        std::vector<Entry> E;
        for (int a = 0; a < isal::NALGO; a++) add_hash(E, a);
        add_aes(E);
        add_mh(E);
        add_rolling(E);
        add_misc(E);
        return E;
}

// names of all isal_-prefixed text symbols in the archive (to detect entry points the table does not know)
static inline std::vector<std::string> archive_isal_symbols()
{
        std::vector<std::string> v;
        for (size_t i = 0; i < isal_symtab_n; i++)
                if (isal_symtab[i].is_func && !strncmp(isal_symtab[i].name, "isal_", 5) && strncmp(isal_symtab[i].name, "isal_verif", 10) &&
                    strncmp(isal_symtab[i].name, "isal_vcpu", 9))
                        v.push_back(isal_symtab[i].name);
        return v;
}

// generic call with up to 10 integer/pointer arguments (SysV: extra arguments are harmless)
typedef uint64_t (*fn10)(uint64_t, uint64_t, uint64_t, uint64_t, uint64_t, uint64_t, uint64_t, uint64_t, uint64_t, uint64_t);
static inline uint64_t invoke(const Call &c, const uint64_t *argv)
{
        return ((fn10) c.fn)(argv[0], argv[1], argv[2], argv[3], argv[4], argv[5], argv[6], argv[7], argv[8], argv[9]);
}

} // namespace ent
