// Property runner shared by all property binaries.
//
//   prop --seed N --cases M [--size S] [--out file.json] [--exclude key1,key2] [--opt k=v ...]
//   prop --replay case.json [--exclude ...]          (bypasses rapidcheck entirely)
//   prop --merge-hashes f1 f2 ...                    (prints the size of the union)
//
// A property supplies:   Case gen(Ctx&)   (draws only from rapidcheck generators)
//                        bool run(const Case&, Ctx&)   (pure function of the case and the library)
//                        J to_json(const Case&), Case from_json(const J&)
// Every random choice is made by rapidcheck, so a failure shrinks and the shrunk case is written
// out as JSON (the replay file).  Counters, label histograms, the hashes of the distinct
// non-trivial cases and a few samples are written to --out for the driver to merge.
#pragma once
#include "json.hpp"
#include <algorithm>
#include <chrono>
#include <fcntl.h>
#include <sys/mman.h>
#include <unistd.h>
#include <functional>
#include <map>
#include <type_traits>
#include <rapidcheck.h>
#include <set>
#include <string>
#include <vector>

namespace pbt {

static inline uint64_t fnv1a(const std::string &s)
{
        uint64_t h = 1469598103934665603ULL;
        for (unsigned char c : s) { h ^= c; h *= 1099511628211ULL; }
        return h;
}

struct Ctx {
        // per-run configuration
        std::set<std::string> exclude; // finding keys listed as known: suppressed + counted
        std::map<std::string, std::string> opt;
        bool replaying = false;
        // per-case outputs (reset by the runner before each run())
        bool nontrivial = false;
        std::string nt_key; // if set, distinctness is counted on this key instead of the whole case
        std::string message, key;
        // accumulated
        std::map<std::string, uint64_t> labels;
        std::map<std::string, uint64_t> known_hits;
        std::map<std::string, std::string> known_example;
        std::vector<std::string> notes;

        void label(const std::string &l, uint64_t n = 1) { labels[l] += n; }
        std::string optstr(const std::string &k, const std::string &def) const
        {
                auto it = opt.find(k);
                return it == opt.end() ? def : it->second;
        }
        long optnum(const std::string &k, long def) const
        {
                auto it = opt.find(k);
                return it == opt.end() ? def : atol(it->second.c_str());
        }
        // Report a failure with a root-cause key.  Returns true if the failure must fail the case,
        // false if the key is a listed known finding (counted, case continues as passing).
        bool fail(const std::string &k, const std::string &msg)
        {
                if (exclude.count(k)) {
                        known_hits[k]++;
                        if (!known_example.count(k)) known_example[k] = msg;
                        return false;
                }
                if (key.empty()) { key = k; message = msg; }
                return true;
        }
};

// ---- generator helpers (size independent; shrink towards the first/lowest choice)
// Every draw goes through ONE rapidcheck element type (long long).  rapidcheck replays the recorded draws by position while it
// shrinks; when a shrunk value changes the control flow of a generator, a later position is re-used by a different draw: with a
// single element type that re-use is well-typed (rapidcheck asserts on a type mismatch), and every helper re-validates the value
// against ITS range (a replayed value may come from a draw with another range).
static inline long long draw_ll(long long lo, long long hi) // inclusive, lo <= hi
{
        long long v;
        if (hi == INT64_MAX) v = *rc::gen::resize(100, rc::gen::arbitrary<long long>());
        else v = *rc::gen::resize(100, rc::gen::inRange<long long>(lo, hi + 1));
        if (v < lo || v > hi) {
                unsigned long long span = (unsigned long long) hi - (unsigned long long) lo + 1ull; // 0 means 2^64
                unsigned long long off = (unsigned long long) v - (unsigned long long) lo;
                v = (long long) ((unsigned long long) lo + (span ? off % span : off));
        }
        return v;
}
static inline uint64_t rng64(uint64_t lo, uint64_t hi)
{
        uint64_t span = hi - lo; // inclusive span - 1
        if (span < (uint64_t) INT64_MAX) return lo + (uint64_t) draw_ll(0, (long long) span);
        // wider than 2^63: draw 64 arbitrary bits and fold them into the range
        uint64_t v = (uint64_t) *rc::gen::resize(100, rc::gen::arbitrary<long long>());
        if (span == UINT64_MAX) return v;
        return lo + v % (span + 1);
}
template <class T> static inline T rng(T lo, T hi) // inclusive; the full range of T is allowed
{
        static_assert(std::is_integral<T>::value, "rng<T> needs an integral type");
        if (sizeof(T) == 8 && !std::is_signed<T>::value) return (T) rng64((uint64_t) lo, (uint64_t) hi);
        return (T) draw_ll((long long) lo, (long long) hi);
}
static inline bool coin(int num = 1, int den = 2) { return rng<int>(0, den - 1) < num ? true : false; }
template <class T> static inline T pick(std::initializer_list<T> l) { return *(l.begin() + rng<size_t>(0, l.size() - 1)); }
template <class T> static inline T pickv(const std::vector<T> &v) { return v[rng<size_t>(0, v.size() - 1)]; }
// weighted choice: returns index
static inline int weighted(std::initializer_list<int> w)
{
        int tot = 0;
        for (int x : w) tot += x;
        int r = rng<int>(0, tot - 1), i = 0;
        for (int x : w) {
                if (r < x) return i;
                r -= x;
                i++;
        }
        return 0;
}
static inline std::vector<uint8_t> bytes(size_t n)
{
        // cheap: draw a 64-bit seed and expand (contents rarely matter bit by bit; shrinks to zeros)
        uint64_t s = rng64(0, UINT64_MAX);
        std::vector<uint8_t> v(n);
        uint64_t x = s;
        for (size_t i = 0; i < n; i++) {
                if (s == 0) { v[i] = 0; continue; }
                x ^= x << 13; x ^= x >> 7; x ^= x << 17;
                v[i] = (uint8_t) (x >> 32);
        }
        return v;
}
// deterministic expansion of a seed into n bytes (cases carry the seed, not the bytes)
static inline void expand(uint64_t seed, uint8_t *out, size_t n)
{
        uint64_t x = seed * 0x9E3779B97F4A7C15ULL + 0x1234567;
        if (!x) x = 1;
        size_t i = 0;
        while (i < n) {
                x ^= x << 13; x ^= x >> 7; x ^= x << 17;
                uint64_t v = x * 0x2545F4914F6CDD1DULL;
                for (int k = 0; k < 8 && i < n; k++, i++) out[i] = (uint8_t) (v >> (8 * k));
        }
}
static inline std::vector<uint8_t> expandv(uint64_t seed, size_t n)
{
        std::vector<uint8_t> v(n);
        expand(seed, v.data(), n);
        return v;
}

template <class Case> struct Prop {
        std::string id;
        std::function<Case(Ctx &)> gen;
        std::function<bool(const Case &, Ctx &)> run;
        std::function<J(const Case &)> to_json;
        std::function<Case(const J &)> from_json;
        std::function<void(Ctx &)> setup;            // optional, once
        std::function<void(Ctx &, J &)> finish;      // optional, add extra keys to the worker output
};

static inline int merge_hashes(int n, char **files)
{
        std::vector<uint64_t> all;
        for (int i = 0; i < n; i++) {
                FILE *f = fopen(files[i], "rb");
                if (!f) continue;
                uint64_t buf[4096];
                size_t k;
                while ((k = fread(buf, 8, 4096, f)) > 0) all.insert(all.end(), buf, buf + k);
                fclose(f);
        }
        std::sort(all.begin(), all.end());
        all.erase(std::unique(all.begin(), all.end()), all.end());
        printf("%zu\n", all.size());
        return 0;
}

template <class Case> int main_(int argc, char **argv, Prop<Case> &P)
{
        uint64_t seed = 1;
        int cases = 100, size = 100;
        std::string out, replay, crashfile;
        Ctx ctx;
        for (int i = 1; i < argc; i++) {
                std::string a = argv[i];
                auto next = [&]() -> std::string { return i + 1 < argc ? argv[++i] : ""; };
                if (a == "--seed") seed = strtoull(next().c_str(), nullptr, 10);
                else if (a == "--cases") cases = atoi(next().c_str());
                else if (a == "--size") size = atoi(next().c_str());
                else if (a == "--out") out = next();
                else if (a == "--replay") replay = next();
                else if (a == "--crashfile") crashfile = next();
                else if (a == "--exclude") {
                        std::string l = next();
                        size_t p = 0;
                        while (p <= l.size()) {
                                size_t q = l.find(',', p);
                                if (q == std::string::npos) q = l.size();
                                if (q > p) ctx.exclude.insert(l.substr(p, q - p));
                                p = q + 1;
                        }
                } else if (a == "--opt") {
                        std::string kv = next();
                        size_t e = kv.find('=');
                        if (e != std::string::npos) ctx.opt[kv.substr(0, e)] = kv.substr(e + 1);
                } else if (a == "--merge-hashes") return merge_hashes(argc - i - 1, argv + i + 1);
        }
        auto t0 = std::chrono::steady_clock::now();
        if (P.setup) P.setup(ctx);

        if (!replay.empty()) {
                ctx.replaying = true;
                J j = J::parse_file(replay);
                const J &cj = j.has("case") ? j.at("case") : j;
                Case c = P.from_json(cj);
                ctx.nontrivial = false;
                ctx.message.clear();
                ctx.key.clear();
                bool ok = P.run(c, ctx);
                J r = J::obj();
                r.set("property", P.id).set("replay", replay).set("holds", ok).set("key", ctx.key).set("message", ctx.message);
                J kh = J::obj();
                for (auto &k : ctx.known_hits) kh.set(k.first, J((unsigned long long) k.second));
                r.set("known_hits", kh);
                J ke = J::obj();
                for (auto &k : ctx.known_example) ke.set(k.first, k.second);
                r.set("known_example", ke);
                printf("%s\n", r.dump().c_str());
                if (!out.empty()) {
                        FILE *f = fopen(out.c_str(), "w");
                        if (f) { fputs(r.dump().c_str(), f); fclose(f); }
                }
                return ok ? 0 : 1;
        }

        // crash capture: the case about to be executed is mirrored into a shared file, so that a worker that dies
        // (memory corruption outside the guarded regions, stack smash, ...) still leaves a replayable case behind
        char *crashbuf = nullptr;
        const size_t CRASHMAX = 1 << 20;
        if (!crashfile.empty()) {
                int fd = open(crashfile.c_str(), O_RDWR | O_CREAT | O_TRUNC, 0644);
                if (fd >= 0 && ftruncate(fd, CRASHMAX) == 0) {
                        crashbuf = (char *) mmap(nullptr, CRASHMAX, PROT_READ | PROT_WRITE, MAP_SHARED, fd, 0);
                        if (crashbuf == MAP_FAILED) crashbuf = nullptr;
                }
                if (fd >= 0) close(fd);
        }
        uint64_t evals = 0, gen_calls = 0;
        std::set<uint64_t> nt;
        std::vector<std::string> samples;
        std::string fail_case, fail_msg, fail_key;
        bool in_main_phase = true;

        rc::detail::TestParams params;
        params.seed = seed;
        params.maxSuccess = cases;
        params.maxSize = size;
        params.maxDiscardRatio = 20;
        rc::detail::TestMetadata md;
        md.id = P.id;
        md.description = P.id;
        auto result = rc::detail::checkTestable(
                [&]() {
                        gen_calls++;
                        Case c = P.gen(ctx);
                        if (crashbuf) {
                                std::string js = P.to_json(c).dump();
                                if (js.size() + 1 < CRASHMAX) { crashbuf[0] = 0; memcpy(crashbuf + 1, js.data() + 1, js.size() - 1); crashbuf[js.size()] = 0; crashbuf[0] = js[0]; }
                        }
                        ctx.nontrivial = false;
                        ctx.nt_key.clear();
                        ctx.message.clear();
                        ctx.key.clear();
                        bool ok = P.run(c, ctx);
                        evals++;
                        if (ctx.nontrivial || !ok || samples.size() < 3) {
                                std::string js = P.to_json(c).dump();
                                if (ctx.nontrivial) nt.insert(fnv1a(ctx.nt_key.empty() ? js : ctx.nt_key));
                                if (ok && samples.size() < 6 && (ctx.nontrivial || samples.size() < 2) && js.size() < 6000) samples.push_back(js);
                                if (!ok) { fail_case = js; fail_msg = ctx.message; fail_key = ctx.key; }
                        }
                        if (!ok) RC_FAIL(ctx.message);
                },
                md, params);
        (void) in_main_phase;
        bool failed = !result.template is<rc::detail::SuccessResult>();
        std::string rcmsg;
        if (failed) {
                std::ostringstream os;
                rc::detail::printResultMessage(result, os);
                rcmsg = os.str();
                if (rcmsg.size() > 3000) rcmsg.resize(3000);
        }
        double wall = std::chrono::duration<double>(std::chrono::steady_clock::now() - t0).count();

        J r = J::obj();
        r.set("property", P.id).set("seed", (unsigned long long) seed).set("cases", cases).set("evaluations", (unsigned long long) evals);
        r.set("nontrivial_distinct", (unsigned long long) nt.size()).set("wall_s", wall);
        r.set("generator_discards", (unsigned long long) (gen_calls - evals)); // generator invocations that did not reach the property body
        J lab = J::obj();
        for (auto &l : ctx.labels) lab.set(l.first, J((unsigned long long) l.second));
        r.set("labels", lab);
        J sm = J::arr();
        for (auto &s : samples) sm.push(J::parse(s));
        r.set("samples", sm);
        J kh = J::obj();
        for (auto &k : ctx.known_hits) kh.set(k.first, J((unsigned long long) k.second));
        r.set("known_hits", kh);
        J ke = J::obj();
        for (auto &k : ctx.known_example) ke.set(k.first, k.second);
        r.set("known_example", ke);
        J notes = J::arr();
        for (auto &n : ctx.notes) notes.push(n);
        r.set("notes", notes);
        if (failed) {
                J f = J::obj();
                if (!fail_case.empty()) f.set("case", J::parse(fail_case));
                f.set("message", fail_msg).set("key", fail_key).set("rapidcheck", rcmsg);
                r.set("failure", f);
        }
        if (P.finish) P.finish(ctx, r);
        if (crashbuf) crashbuf[0] = 0; // finished normally: nothing pending
        if (!out.empty()) {
                FILE *f = fopen(out.c_str(), "w");
                if (f) { fputs(r.dump().c_str(), f); fputc('\n', f); fclose(f); }
                std::string hf = out + ".hashes";
                f = fopen(hf.c_str(), "wb");
                if (f) {
                        for (uint64_t h : nt) fwrite(&h, 8, 1, f);
                        fclose(f);
                }
        } else {
                printf("%s\n", r.dump().c_str());
        }
        return failed ? 1 : 0;
}

} // namespace pbt
