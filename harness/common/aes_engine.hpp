// AES entry points by family (resolved by name from the archive) + small helpers shared by
// C02/C03/C04/C07 and reused by C08/C14/C19/C20.
#pragma once
#include "../ref/ref_aes.hpp"
#include "../ref/ref_hash.hpp"
#include "arena.hpp"
#include "isal.hpp"
#include "json.hpp"
#include "pbt.hpp"

namespace ae {

typedef void (*gcm_oneshot_fn)(const void *kd, void *cd, uint8_t *out, const uint8_t *in, uint64_t len, uint8_t *iv, const uint8_t *aad, uint64_t aad_len,
                               uint8_t *tag, uint64_t tag_len);
typedef int (*gcm_oneshot_ifn)(const void *kd, void *cd, uint8_t *out, const uint8_t *in, uint64_t len, const uint8_t *iv, const uint8_t *aad,
                                uint64_t aad_len, uint8_t *tag, uint64_t tag_len);
typedef void (*gcm_init_fn)(const void *kd, void *cd, uint8_t *iv, const uint8_t *aad, uint64_t aad_len);
typedef int (*gcm_init_ifn)(const void *kd, void *cd, const uint8_t *iv, const uint8_t *aad, uint64_t aad_len);
typedef void (*gcm_update_fn)(const void *kd, void *cd, uint8_t *out, const uint8_t *in, uint64_t len);
typedef int (*gcm_update_ifn)(const void *kd, void *cd, uint8_t *out, const uint8_t *in, uint64_t len);
typedef void (*gcm_final_fn)(const void *kd, void *cd, uint8_t *tag, uint64_t tag_len);
typedef int (*gcm_final_ifn)(const void *kd, void *cd, uint8_t *tag, uint64_t tag_len);
typedef void (*gcm_precomp_fn)(void *kd);
typedef void (*gcm_pre_fn)(const void *key, void *kd);
typedef int (*gcm_pre_ifn)(const void *key, void *kd);
typedef void (*keyexp_fn)(const uint8_t *key, uint8_t *enc, uint8_t *dec);
typedef int (*keyexp_ifn)(const uint8_t *key, uint8_t *enc, uint8_t *dec);

// one GCM "family": all entry points that must agree on the key-data layout
struct GcmFam {
        std::string fam; // sse | avx_gen2 | avx_gen4 | vaes_avx512 | legacy | isal
        int bits;        // 128 | 256
        bool api = false; // isal_ API with return codes
        // [dec][nt]
        void *oneshot[2][2] = { { 0, 0 }, { 0, 0 } };
        void *update[2][2] = { { 0, 0 }, { 0, 0 } };
        void *finalize[2] = { 0, 0 };
        void *init = nullptr;
        void *precomp = nullptr; // family precompute on key_data with expanded_keys already filled
        void *pre = nullptr;     // dispatcher-level pre (key -> key_data)
        void *keyexp = nullptr;  // key expansion used to fill expanded_keys for a family
        bool runnable = true;
        std::string label() const { return "gcm" + std::to_string(bits) + "/" + fam; }
};

static inline std::vector<GcmFam> gcm_families()
{
        std::vector<GcmFam> v;
        const char *fams[] = { "sse", "avx_gen2", "avx_gen4", "vaes_avx512" };
        for (int bits : { 128, 256 }) {
                std::string b = std::to_string(bits);
                for (const char *fn : fams) {
                        GcmFam g;
                        g.fam = fn;
                        g.bits = bits;
                        std::string f = fn;
                        for (int d = 0; d < 2; d++) {
                                std::string ed = d ? "dec" : "enc";
                                g.oneshot[d][0] = isal::sym("_aes_gcm_" + ed + "_" + b + "_" + f);
                                g.oneshot[d][1] = isal::sym("_aes_gcm_" + ed + "_" + b + "_" + f + "_nt");
                                g.update[d][0] = isal::sym("_aes_gcm_" + ed + "_" + b + "_update_" + f);
                                g.update[d][1] = isal::sym("_aes_gcm_" + ed + "_" + b + "_update_" + f + "_nt");
                                g.finalize[d] = isal::sym("_aes_gcm_" + ed + "_" + b + "_finalize_" + f);
                        }
                        g.init = isal::sym("_aes_gcm_init_" + b + "_" + f);
                        g.precomp = isal::sym("_aes_gcm_precomp_" + b + "_" + f);
                        g.keyexp = isal::sym("_aes_keyexp_" + b + (f == "sse" ? "_sse" : "_avx"));
                        if (!g.oneshot[0][0] || !g.precomp || !g.keyexp) continue;
                        g.runnable = isal::host_can_run(f) && isal::cpu().aesni && isal::cpu().pclmul;
                        v.push_back(g);
                }
                for (int api = 0; api < 2; api++) {
                        GcmFam g;
                        g.fam = api ? "isal" : "legacy";
                        g.bits = bits;
                        g.api = api;
                        std::string p = api ? "isal_aes_gcm_" : "aes_gcm_";
                        for (int d = 0; d < 2; d++) {
                                std::string ed = d ? "dec" : "enc";
                                g.oneshot[d][0] = isal::sym(p + ed + "_" + b);
                                g.oneshot[d][1] = isal::sym(p + ed + "_" + b + "_nt");
                                g.update[d][0] = isal::sym(p + ed + "_" + b + "_update");
                                g.update[d][1] = isal::sym(p + ed + "_" + b + "_update_nt");
                                g.finalize[d] = isal::sym(p + ed + "_" + b + "_finalize");
                        }
                        g.init = isal::sym(p + "init_" + b);
                        g.pre = isal::sym(p + "pre_" + b);
                        if (!g.oneshot[0][0] || !g.pre) continue;
                        g.runnable = isal::cpu().aesni && isal::cpu().pclmul && isal::cpu().sse41;
                        v.push_back(g);
                }
        }
        return v;
}

// key-data preparation by the same family; returns false on fault
static inline bool gcm_prepare(const GcmFam &g, const uint8_t *key, void *kd, guard::FaultInfo &fi, int *rc = nullptr)
{
        int r = 0;
        bool ok = guard::guarded_call(fi, [&] {
                if (g.pre) {
                        if (g.api) r = ((gcm_pre_ifn) g.pre)(key, kd);
                        else ((gcm_pre_fn) g.pre)(key, kd);
                } else {
                        uint8_t tmp[16 * 15];
                        ((keyexp_fn) g.keyexp)(key, (uint8_t *) kd, tmp);
                        ((gcm_precomp_fn) g.precomp)(kd);
                }
        });
        if (rc) *rc = r;
        return ok;
}

// GCM data-length mixture (every residue of the 8/16/48-block loops with every tail; counter carry ranges)
static inline uint64_t gen_gcm_len(uint64_t big_max)
{
        using namespace pbt;
        switch (weighted({ 3, 40, 10, 8, 6, 2 })) {
        case 0: return 0;
        case 1: return rng<uint64_t>(1, 1100);
        case 2: return rng<uint64_t>(4080, 4112);
        case 3: return rng<uint64_t>(1101, 20000);
        case 4: return rng<uint64_t>(65520, 65552);
        default: return rng<uint64_t>(1, big_max);
        }
}
static inline uint64_t gen_aad_len()
{
        using namespace pbt;
        switch (weighted({ 4, 30, 6, 6, 6, 6, 1 })) {
        case 0: return 0;
        case 1: return rng<uint64_t>(1, 48);
        case 2: return rng<uint64_t>(63, 65);
        case 3: return rng<uint64_t>(127, 129);
        case 4: return rng<uint64_t>(255, 257);
        case 5: return rng<uint64_t>(49, 2048);
        default: return rng<uint64_t>(2049, 65536);
        }
}

// ---------------------------------------------------------------- XTS
typedef void (*xts_fn)(uint8_t *k2, uint8_t *k1, uint8_t *tw, uint64_t n, const uint8_t *in, uint8_t *out);
typedef int (*xts_ifn)(const uint8_t *k2, const uint8_t *k1, const uint8_t *tw, uint64_t n, const void *in, void *out);

struct XtsFam {
        std::string fam; // sse | avx | vaes | legacy | isal
        int bits;
        bool api = false;
        void *fn[2][2]; // [dec][expanded]
        bool runnable = true;
        std::string label() const { return "xts" + std::to_string(bits) + "/" + fam; }
};

static inline std::vector<XtsFam> xts_families()
{
        std::vector<XtsFam> v;
        for (int bits : { 128, 256 }) {
                std::string b = std::to_string(bits);
                for (const char *f : { "sse", "avx", "vaes", "legacy", "isal" }) {
                        XtsFam x;
                        x.fam = f;
                        x.bits = bits;
                        x.api = x.fam == "isal";
                        for (int d = 0; d < 2; d++)
                                for (int e = 0; e < 2; e++) {
                                        std::string ed = d ? "dec" : "enc", n;
                                        if (x.fam == "isal") n = "isal_aes_xts_" + ed + "_" + b + (e ? "_expanded_key" : "");
                                        else if (x.fam == "legacy") n = "XTS_AES_" + b + "_" + ed + (e ? "_expanded_key" : "");
                                        else n = "_XTS_AES_" + b + "_" + ed + (e ? "_expanded_key" : "") + "_" + f;
                                        x.fn[d][e] = isal::sym(n);
                                }
                        if (!x.fn[0][0] && !x.fn[0][1] && !x.fn[1][0] && !x.fn[1][1]) continue;
                        x.runnable = (x.fam == "legacy" || x.fam == "isal") ? isal::cpu().aesni : (isal::host_can_run(f) && isal::cpu().aesni);
                        v.push_back(x);
                }
        }
        return v;
}


// ---------------------------------------------------------------- key expansion + CBC
namespace cbc {
typedef void (*cbc_dec_fn)(void *in, uint8_t *iv, uint8_t *keys, void *out, uint64_t len);
typedef int (*cbc_enc_fn)(void *in, uint8_t *iv, uint8_t *keys, void *out, uint64_t len);
typedef int (*cbc_ifn)(const void *in, const void *iv, const void *keys, void *out, uint64_t len);

enum { OP_KEYEXP = 0, OP_ENC = 1, OP_DEC = 2 };
struct Ent {
        int op, bits;
        std::string fam;
        void *fn;
        bool api;
        bool runnable;
        std::string label() const { return std::string(op == OP_KEYEXP ? "keyexp" : op == OP_ENC ? "cbc_enc" : "cbc_dec") + std::to_string(bits) + "/" + fam; }
};

static inline std::vector<Ent> discover()
{
        std::vector<Ent> g_ents;
        for (int bits : { 128, 192, 256 }) {
                std::string b = std::to_string(bits);
                auto add = [&](int op, const std::string &fam, const std::string &symname, bool api, bool runnable) {
                        void *p = isal::sym(symname);
                        if (p) g_ents.push_back(Ent{ op, bits, fam, p, api, runnable });
                };
                bool aes = isal::cpu().aesni;
                add(OP_KEYEXP, "sse", "_aes_keyexp_" + b + "_sse", false, aes && isal::cpu().sse41);
                add(OP_KEYEXP, "avx", "_aes_keyexp_" + b + "_avx", false, aes && isal::cpu().avx);
                add(OP_KEYEXP, "legacy", "aes_keyexp_" + b, false, aes);
                add(OP_KEYEXP, "isal", "isal_aes_keyexp_" + b, true, aes);
                add(OP_ENC, "x4", "_aes_cbc_enc_" + b + "_x4", false, aes && isal::cpu().sse41);
                add(OP_ENC, "x8", "_aes_cbc_enc_" + b + "_x8", false, aes && isal::cpu().sse41);
                add(OP_ENC, "legacy", "aes_cbc_enc_" + b, false, aes);
                add(OP_ENC, "isal", "isal_aes_cbc_enc_" + b, true, aes);
                add(OP_DEC, "sse", "_aes_cbc_dec_" + b + "_sse", false, aes && isal::cpu().sse41);
                add(OP_DEC, "avx", "_aes_cbc_dec_" + b + "_avx", false, aes && isal::cpu().avx);
                add(OP_DEC, "vaes_avx512", "_aes_cbc_dec_" + b + "_vaes_avx512", false, aes && isal::host_can_run("vaes_avx512"));
                add(OP_DEC, "legacy", "aes_cbc_dec_" + b, false, aes);
                add(OP_DEC, "isal", "isal_aes_cbc_dec_" + b, true, aes);
        }
        return g_ents;
}
} // namespace cbc

} // namespace ae
