// Operations with observables: one case format covering hash histories, multi-hash partitions, every AES entry point
// (with a continuation that uses the produced object) and every catalog entry; execute() runs a case in one of two
// "worlds" of hidden state and returns every observable byte.  Shared by C20 (paired hidden state) and C18
// (sequential vs concurrent execution, writable-section snapshots).
#pragma once
#include "aes_ops.hpp"
#include "entries.hpp"
#include "hash_engine.hpp"
#include "mh_engine.hpp"
#include "tramp.hpp"

namespace oo {

struct Case {
        std::string kind; // hash | mh | aes | cat
        he::Case h;
        mh::Case m;
        aops::Case a;
        std::string entry;
        int legacy = 0;
        uint64_t seed = 1, len = 64, aad_len = 16;
        int tag_len = 16, flags = 3;
};
static inline J to_json(const Case &c)
{
        J j = J::obj();
        j.set("kind", c.kind);
        if (c.kind == "hash") j.set("h", he::to_json(c.h));
        else if (c.kind == "mh") j.set("m", mh::to_json(c.m));
        else if (c.kind == "aes") j.set("a", aops::to_json(c.a));
        else
                j.set("entry", c.entry).set("legacy", c.legacy).set("seed", (unsigned long long) c.seed).set("len", (unsigned long long) c.len).set("aad_len", (unsigned long long) c.aad_len)
                        .set("tag_len", c.tag_len).set("flags", c.flags);
        return j;
}
static inline Case from_json(const J &j)
{
        Case c;
        c.kind = j.at("kind").s;
        if (c.kind == "hash") c.h = he::from_json(j.at("h"));
        else if (c.kind == "mh") c.m = mh::from_json(j.at("m"));
        else if (c.kind == "aes") c.a = aops::from_json(j.at("a"));
        else {
                c.entry = j.at("entry").s;
                c.legacy = j.num("legacy", 0); c.seed = j.unum("seed", 1); c.len = j.unum("len", 64); c.aad_len = j.unum("aad_len", 16); c.tag_len = j.num("tag_len", 16);
                c.flags = j.num("flags", 3);
        }
        return c;
}

static std::vector<isal::HashFamily> g_hash;
static std::vector<mh::Fam> g_mh;
static aops::Ops g_O;
static std::vector<ent::Entry> g_entries;

// ---- hidden state of the current execution
static bool g_use_tramp = true; // C18 runs the same operations on several real threads: no trampoline (global block) there
static uint64_t g_hidden = 1;
static uint8_t g_pattern = 0xD7;
static inline uint64_t tramp_invoke(void *fn, const uint64_t *args, int nargs)
{
        tramp::prepare(fn, args, nargs, g_pattern, g_hidden, tramp::host_has_avx512());
        g_hidden = g_hidden * 6364136223846793005ULL + 1442695040888963407ULL;
        if (!g_hidden) g_hidden = 1;
        vtramp();
        return g_tramp.out_gpr[tramp::RAX];
}
static inline void set_world(int w, uint64_t seed)
{
        guard::g_fill_xor = w ? 0xFF : 0;
        g_pattern = w ? 0x28 : 0xD7;
        g_hidden = (seed | 1) * (w ? 0x9E3779B97F4A7C15ULL : 1) + (w ? 77 : 0);
        if (!g_hidden) g_hidden = 1;
}

// one execution in world w; returns false if the execution itself failed (fault / oracle), obs receives every observable
static inline bool execute(const Case &c, int w, pbt::Ctx &ctx, std::vector<uint8_t> &obs, bool &idle_or_partial, std::string &site)
{
        set_world(w, c.kind == "cat" ? c.seed : 12345);
        guard::FaultInfo fi;
        isal::g_invoke = g_use_tramp ? tramp_invoke : nullptr;
        struct Off { ~Off() { isal::g_invoke = nullptr; guard::g_fill_xor = 0; } } off;
        auto put = [&](const void *p, size_t n) { obs.insert(obs.end(), (const uint8_t *) p, (const uint8_t *) p + n); };
        if (c.kind == "hash") {
                const isal::HashFamily *f = nullptr;
                for (auto &x : g_hash)
                        if (x.label() == c.h.fam) f = &x;
                if (!f) return true;
                site = c.h.fam;
                he::ExecStats st;
                he::ExecOpts eo;
                eo.images = false;
                bool ok = he::execute(c.h, *f, ctx, st, eo);
                put(&st.obs, 8);
                idle_or_partial = st.max_held >= 1 && (f->lanes < 0 || st.max_held < f->lanes || st.flush_with_2);
                return ok;
        }
        if (c.kind == "mh") {
                const mh::Fam *f = nullptr;
                for (auto &x : g_mh)
                        if (x.label() == c.m.fam) f = &x;
                if (!f) return true;
                site = c.m.fam;
                mh::Stats st;
                bool ok = mh::execute(c.m, *f, ctx, st);
                obs = st.observed;
                idle_or_partial = st.total % 1024 != 0;
                return ok;
        }
        if (c.kind == "aes") {
                guard::Arena A;
                aops::Built B;
                site = c.a.op;
                isal::g_invoke = nullptr;
                int br = aops::build(c.a, g_O, A, B, ctx);
                if (br == 1 || br == 3) return true;
                if (br == 2) return false;
                uint64_t ret = 0;
                bool okc = guard::guarded_call(fi, [&] { ret = g_use_tramp ? tramp_invoke(B.fn, B.args, B.nargs) : isal::call_fn(B.fn, { B.args[0], B.args[1], B.args[2], B.args[3], B.args[4], B.args[5], B.args[6], B.args[7], B.args[8], B.args[9] }); });
                if (!okc) {
                        A.describe(fi);
                        return !ctx.fail("fault|" + c.a.op, c.a.op + ": fault: " + fi.where);
                }
                if (B.continuation && !B.continuation()) return !ctx.fail("fault-continuation|" + c.a.op, c.a.op + ": fault in the continuation");
                for (auto &o : B.outs) put(o.first, o.second);
                idle_or_partial = true;
                return true;
        }
        // catalog entry
        const ent::Entry *e = nullptr;
        for (auto &x : g_entries)
                if (x.name == c.entry) e = &x;
        if (!e) return true;
        guard::Arena A;
        ent::Params p;
        p.seed = c.seed; p.len = c.len; p.aad_len = c.aad_len; p.tag_len = c.tag_len; p.flags = c.flags; p.legacy = c.legacy && !e->legacy.empty();
        p.w = 1 + c.seed % 48; p.mask = 0x1f; p.trigger = (uint32_t) (c.seed >> 11);
        if (c.entry.find("_nt") != std::string::npos) p.len = p.len / 64 * 64;
        if (e->group == "cbc") p.len = p.len / 16 * 16;
        ent::Call call;
        isal::g_invoke = nullptr;
        if (!e->build(A, p, call)) return true;
        site = call.entry;
        uint64_t ret = 0;
        bool okc = guard::guarded_call(fi, [&] { ret = g_use_tramp ? tramp_invoke(call.fn, call.argv, call.nargs) : ent::invoke(call, call.argv); });
        if (!okc) {
                A.describe(fi);
                return !ctx.fail("fault|" + call.entry, call.entry + ": fault: " + fi.where);
        }
        if (call.returns_int) { uint32_t r32 = (uint32_t) ret; put(&r32, 4); }
        std::vector<uint8_t> r;
        okc = guard::guarded_call(fi, [&] { r = call.result(ret); });
        if (!okc) return !ctx.fail("fault-continuation|" + call.entry, call.entry + ": fault while using the object afterwards");
        put(r.data(), r.size());
        idle_or_partial = true;
        return true;
}


static inline void discover(pbt::Ctx &ctx)
{
        (void) ctx;
        for (auto &f : isal::hash_families())
                if (f.runnable) g_hash.push_back(f);
        for (auto &f : mh::families({ mh::MH_SHA1, mh::MH_SHA256, mh::MH_MURMUR }))
                if (f.runnable) g_mh.push_back(f);
        g_O.discover("");
        for (auto &e : ent::all_entries())
                if (e.cls != ent::OTHER) g_entries.push_back(e);
}

static inline Case gen_case()
{
        using namespace pbt;
        Case c;
        c.seed = rng64(1, UINT64_MAX - 8);
        switch (weighted({ 3, 2, 5, 4 })) {
        case 0: {
                c.kind = "hash";
                he::GenOpts go;
                go.allow_bad = false;
                go.max_cmds = 30;
                go.big_max = 8192;
                c.h = he::gen_case(g_hash[rng<size_t>(0, g_hash.size() - 1)], go);
                break;
        }
        case 1:
                c.kind = "mh";
                c.m = mh::gen_case(g_mh[rng<size_t>(0, g_mh.size() - 1)], 20000);
                break;
        case 2:
                c.kind = "aes";
                c.a = aops::gen_case(g_O);
                break;
        default: {
                c.kind = "cat";
                const ent::Entry &e = g_entries[rng<size_t>(0, g_entries.size() - 1)];
                c.entry = e.name;
                c.legacy = coin(1, 3);
                c.len = weighted({ 1, 6, 3 }) == 0 ? 0 : (coin() ? 16 * rng<uint64_t>(1, 40) : rng<uint64_t>(1, 1500));
                if (e.group == "xts") c.len = 16 * rng<uint64_t>(1, 40) + rng<uint64_t>(0, 15);
                c.aad_len = coin(1, 4) ? 0 : rng<uint64_t>(1, 64);
                c.tag_len = pick<int>({ 16, 12, 8 });
                c.flags = pick<int>({ ISAL_HASH_ENTIRE, ISAL_HASH_FIRST });
                break;
        }
        }
        return c;
}

// another case that exercises the same code (same kind and the same family / operation / entry point) with fresh data
static inline Case gen_sibling(const Case &t)
{
        using namespace pbt;
        Case c;
        c.kind = t.kind;
        c.seed = rng64(1, UINT64_MAX - 8);
        if (t.kind == "hash") {
                he::GenOpts go;
                go.allow_bad = false;
                go.max_cmds = 24;
                go.big_max = 2048;
                for (auto &f : g_hash)
                        if (f.label() == t.h.fam) { c.h = he::gen_case(f, go); return c; }
                c.h = t.h;
        } else if (t.kind == "mh") {
                for (auto &f : g_mh)
                        if (f.label() == t.m.fam) { c.m = mh::gen_case(f, 6000); return c; }
                c.m = t.m;
        } else if (t.kind == "aes") {
                c.a = aops::gen_case(g_O);
                c.a.op = t.a.op;
                if (c.a.op.find("_nt") != std::string::npos) c.a.pre_len = c.a.pre_len / 64 * 64;
        } else {
                c.entry = t.entry;
                c.legacy = t.legacy;
                c.len = t.len;
                c.aad_len = t.aad_len;
                c.tag_len = t.tag_len;
                c.flags = t.flags;
        }
        return c;
}

} // namespace oo
