// C15 - hash length accounting stays exact across the 2^29- and 2^32-byte totals: a job whose segments add up to
//       >= 2^29 or >= 2^32 bytes (each single submit < 2^32) completes with the standard digest of the whole stream and
//       total_length equals the sum of the segment lengths.
// The stream is a 1 MiB block mapped back to back (memfd) so that single segments up to 2^32-1 bytes are cheap to hold.
#include "../common/hash_engine.hpp"
#include "../common/periodic.hpp"

static uint8_t *g_stream = nullptr;
static void map_stream() { g_stream = periodic::stream(); }

// reference digests of stream[0..L) with snapshots every 64 MiB and at every requested length
struct RefStream {
        int algo;
        std::map<uint64_t, ref::Hasher> snaps;
        explicit RefStream(int a) : algo(a) { snaps.emplace(0, ref::Hasher(a)); }
        std::vector<uint8_t> at(uint64_t L)
        {
                auto it = snaps.upper_bound(L);
                --it;
                ref::Hasher h = it->second;
                uint64_t pos = it->first;
                while (pos < L) {
                        uint64_t next = (pos / (64ull << 20) + 1) * (64ull << 20);
                        uint64_t to = next < L ? next : L;
                        h.update(g_stream + pos, to - pos);
                        pos = to;
                        if (pos == next && !snaps.count(pos)) snaps.emplace(pos, h);
                }
                if (!snaps.count(L)) snaps.emplace(L, h);
                return h.digest();
        }
};
static std::map<int, RefStream *> g_refs;

struct Case {
        std::string fam;
        std::vector<std::vector<uint64_t>> segs; // per context: segment lengths (sum = total)
        int sweep = 0;     // 1: placement sweep - a full manager of short jobs + one giant segment, for every (giant lane, shortest lane at a
                           //    power-of-two distance); each round stops when the short jobs are done (the giant is not hashed to the end)
        uint64_t big = 0;  // sweep: length of the giant segment
        uint64_t seed = 0; // sweep: residues of the short jobs
};
static J to_json(const Case &c)
{
        J j = J::obj();
        j.set("fam", c.fam);
        J a = J::arr();
        for (auto &s : c.segs) {
                J b = J::arr();
                for (auto x : s) b.push(J((unsigned long long) x));
                a.push(b);
        }
        j.set("segs", a);
        if (c.sweep) j.set("sweep", c.sweep).set("big", (unsigned long long) c.big).set("seed", (unsigned long long) c.seed);
        return j;
}
static Case from_json(const J &j)
{
        Case c;
        c.fam = j.at("fam").s;
        for (auto &s : j.at("segs").a) {
                std::vector<uint64_t> v;
                for (auto &x : s.a) v.push_back(x.unum());
                c.segs.push_back(v);
        }
        c.sweep = j.num("sweep", 0); c.big = j.unum("big", 0); c.seed = j.unum("seed", 0);
        return c;
}
static std::vector<isal::HashFamily> g_fams;
static size_t g_next_fam = 0;

static bool run_one(const Case &c, const isal::HashFamily *f, pbt::Ctx &ctx, bool stop_early, const std::string &extra);
static bool run(const Case &c, pbt::Ctx &ctx)
{
        using namespace isal;
        const HashFamily *f = nullptr;
        for (auto &x : g_fams)
                if (x.label() == c.fam) f = &x;
        if (!f) { ctx.label("absent-family"); return true; }
        if (c.sweep) {
                int lanes = f->lanes > 0 ? f->lanes : 1;
                int n = lanes > 32 ? 32 : lanes;
                if (n < 2) { ctx.label("sweep: single-lane family"); return true; }
                unsigned B = algo_desc[f->algo].block;
                uint64_t placements = 0;
                for (int g = 0; g < n; g++)
                        for (int dist = 1; dist < n; dist <<= 1)
                                for (int sign = -1; sign <= 1; sign += 2) {
                                        int sidx = g + sign * dist;
                                        if (sidx < 0 || sidx >= n) continue;
                                        Case t;
                                        t.fam = c.fam;
                                        uint64_t x = c.seed + (uint64_t) g * 131 + (uint64_t) sidx;
                                        int nb = 2;
                                        for (int i = 0; i < n; i++) {
                                                x = x * 6364136223846793005ull + 1442695040888963407ull;
                                                uint64_t r = (x >> 33) % B;
                                                if (i == g) t.segs.push_back({ c.big });
                                                else if (i == sidx) t.segs.push_back({ B + r });
                                                else t.segs.push_back({ (uint64_t) (nb++) * B + r });
                                        }
                                        placements++;
                                        if (!run_one(t, f, ctx, true, " [placement sweep: giant segment of " + std::to_string(c.big) + " bytes submitted as job " + std::to_string(g) +
                                                                              ", shortest job as job " + std::to_string(sidx) + " of " + std::to_string(n) + "]"))
                                                return false;
                                }
                ctx.label("shape=placement-sweep");
                ctx.label("sweep placements", placements);
                ctx.nontrivial = true;
                return true;
        }
        if (c.segs.empty()) { ctx.label("padding case (every family of this worker has had every shape)"); return true; }
        return run_one(c, f, ctx, false, "");
}
static bool run_one(const Case &c, const isal::HashFamily *f, pbt::Ctx &ctx, bool stop_early, const std::string &extra)
{
        using namespace isal;
        const AlgoDesc &D = algo_desc[f->algo];
        const std::string site = c.fam;
        auto failx = [&](const std::string &k, const std::string &m) { return ctx.fail(k + "|" + site, site + ": " + m + extra); };
        if (!g_refs.count(f->algo)) g_refs[f->algo] = new RefStream(f->algo);
        RefStream &R = *g_refs[f->algo];
        guard::Arena A;
        guard::FaultInfo fi;
        size_t n = c.segs.size();
        uint8_t *mgr = A.alloc("mgr", D.mgr_size, 64, guard::END, 0x5a);
        struct CM { void *c; size_t next = 0; uint64_t off = 0; bool held = false, done = false; };
        std::vector<CM> M(n);
        for (size_t i = 0; i < n; i++) {
                M[i].c = A.alloc("ctx", D.ctx_size, 64, guard::END, 0x3c);
                ctx_init(f->algo, M[i].c);
        }
        int rc = 0;
        bool okc = guard::guarded_call(fi, [&] {
                if (f->is_isal()) rc = f->i_init(mgr);
                else f->init(mgr);
        });
        if (!okc) return !failx("fault", "fault in init");
        uint64_t bytes = 0;
        auto finish = [&](void *r) -> bool {
                for (auto &m : M)
                        if (m.c == r) {
                                m.held = false;
                                if (m.next == c.segs[&m - &M[0]].size()) {
                                        m.done = true;
                                        uint64_t total = m.off;
                                        if (ctx_status(f->algo, r) != ISAL_HASH_CTX_STS_COMPLETE)
                                                if (failx("status", "context not complete after LAST, status " + std::to_string(ctx_status(f->algo, r)))) return false;
                                        if (ctx_total(f->algo, r) != total)
                                                if (failx("total-length", "total_length " + std::to_string(ctx_total(f->algo, r)) + " but the segments add up to " + std::to_string(total))) return false;
                                        std::vector<uint8_t> got = ref::digest_from_words(f->algo, ctx_digest(f->algo, r)), want = R.at(total);
                                        if (got != want && total < (1ull << 29)) {
                                                if (failx("digest|bystander", "digest wrong for a job of " + std::to_string(total) + " bytes that shared the manager with a job of 2^30 bytes or more (" +
                                                                                      std::to_string(n) + " jobs in flight): got " + ref::hex(got).substr(0, 16) + ".. want " + ref::hex(want).substr(0, 16) + ".."))
                                                        return false;
                                        } else if (got != want) {
                                                std::string thr = total >= (1ull << 32) + (1ull << 29) ? "2^32+2^29" : total >= (1ull << 32) ? "2^32" : "2^29";
                                                if (failx("digest|" + thr, "digest wrong for a stream of " + std::to_string(total) + " bytes (>= " + thr + ", residue mod block " +
                                                                                   std::to_string(total % D.block) + ") in " + std::to_string(c.segs[&m - &M[0]].size()) + " segments: got " +
                                                                                   ref::hex(got).substr(0, 16) + ".. want " + ref::hex(want).substr(0, 16) + ".."))
                                                        return false;
                                        }
                                }
                                return true;
                        }
                return !failx("returned-unknown", "unknown context returned");
        };
        // with stop_early only the short jobs have to finish
        auto count_remaining = [&]() {
                size_t r = 0;
                for (size_t i = 0; i < n; i++) {
                        if (M[i].done) continue;
                        uint64_t t = 0;
                        for (auto x : c.segs[i]) t += x;
                        if (stop_early && t >= (1ull << 29)) continue;
                        r++;
                }
                return r;
        };
        size_t remaining = n;
        int spins = 0;
        while (remaining && spins++ < 100000) {
                bool progressed = false;
                for (size_t i = 0; i < n; i++) {
                        CM &m = M[i];
                        if (m.held || m.done || m.next >= c.segs[i].size()) continue;
                        uint64_t len = c.segs[i][m.next];
                        int flags = (m.next == 0 ? ISAL_HASH_FIRST : 0) | (m.next + 1 == c.segs[i].size() ? ISAL_HASH_LAST : 0);
                        const uint8_t *buf = g_stream + m.off;
                        m.off += len;
                        m.next++;
                        m.held = true;
                        bytes += len;
                        void *r = nullptr;
                        rc = 0;
                        okc = guard::guarded_call(fi, [&] {
                                if (f->is_isal()) rc = f->i_submit(mgr, m.c, &r, buf, (uint32_t) len, flags);
                                else r = f->submit(mgr, m.c, buf, (uint32_t) len, flags);
                        });
                        if (!okc) return !failx("fault", "fault in submit (segment of " + std::to_string(len) + " bytes at stream offset " + std::to_string(m.off - len) + ")");
                        if (rc && failx("rc", "submit returned " + std::to_string(rc))) return false;
                        if (r && !finish(r)) return false;
                        progressed = true;
                }
                remaining = count_remaining();
                if (!remaining) break;
                bool any_submittable = false;
                for (size_t i = 0; i < n; i++) any_submittable |= (!M[i].held && !M[i].done);
                if (!any_submittable || !progressed) {
                        void *r = nullptr;
                        okc = guard::guarded_call(fi, [&] {
                                if (f->is_isal()) rc = f->i_flush(mgr, &r);
                                else r = f->flush(mgr);
                        });
                        if (!okc) return !failx("fault", "fault in flush");
                        if (!r) {
                                bool anyheld = false;
                                for (auto &m : M) anyheld |= m.held;
                                if (anyheld) return !failx("stranded", "flush returned NULL while jobs are held");
                        } else if (!finish(r)) return false;
                }
                remaining = count_remaining();
        }
        if (remaining) return !failx("not-finished", "jobs did not finish");
        if (stop_early) return true;
        ctx.label("fam=" + c.fam);
        ctx.label("jobs", n);
        ctx.label("GiB_hashed_by_library_x100", bytes * 100 >> 30);
        for (auto &s : c.segs) {
                uint64_t t = 0;
                for (auto x : s) t += x;
                ctx.label(t >= (1ull << 32) + (1ull << 29) ? "crosses=2^32+2^29" : t >= (1ull << 32) ? "crosses=2^32" : t >= (1ull << 29) ? "crosses=2^29" : "bystander job");
        }
        ctx.nontrivial = true;
        return true;
}

int main(int argc, char **argv)
{
        pbt::Prop<Case> P;
        P.id = "C15";
        P.setup = [](pbt::Ctx &ctx) {
                map_stream();
                long w = ctx.optnum("worker", 0), nw = ctx.optnum("workers", 1);
                std::vector<isal::HashFamily> all;
                for (auto &f : isal::hash_families()) // already grouped by algorithm
                        if (f.runnable) all.push_back(f);
                        else ctx.notes.push_back("family skipped (host cannot execute it): " + f.label());
                std::string only = ctx.optstr("fam", "");
                // every worker owns a contiguous slice of the (algorithm-sorted) family list, so that it needs the 4.3 GiB reference pass of at most two
                // algorithms; families are then taken round-robin (a counter, not a random draw) so that EVERY family is exercised in every run
                size_t n = all.size();
                size_t lo = (size_t) w * n / (size_t) nw, hi = (size_t) (w + 1) * n / (size_t) nw;
                for (size_t i = 0; i < n; i++) {
                        if (!only.empty() && all[i].label().find(only) == std::string::npos) continue;
                        if (ctx.replaying || (i >= lo && i < hi)) g_fams.push_back(all[i]);
                }
                if (g_fams.empty()) g_fams.push_back(all[(size_t) w % all.size()]);
                g_next_fam = (size_t) ctx.optnum("verif_seed", 0);
        };
        P.gen = [](pbt::Ctx &ctx) {
                using namespace pbt;
                Case c;
                static size_t k = 0;
                const size_t nf = g_fams.size(), idx = k++;
                const isal::HashFamily &f = g_fams[g_next_fam++ % nf];
                c.fam = f.label();
                unsigned B = isal::algo_desc[f.algo].block;
                int lanes = f.lanes > 0 ? f.lanes : (f.lanes == 0 ? 1 : 4);
                // shapes, taken in turn per family: 0 = one job across 2^32 (+ companions), 1 = "twins": every job in flight has 2^30 bytes or
                // more outstanding, 2 = "crowd": a full manager of short jobs plus one segment of 2^31 bytes or more
                const int shape = (int) ((idx / nf) % 4);
                if (ctx.optnum("shapes", 1) && ctx.optstr("tier", "") == "quick" && idx >= 4 * nf) return c; // padding
                if (ctx.optnum("shapes", 1) && shape == 3) {
                        c.sweep = 1;
                        c.big = coin(1, 4) ? 0xffffffffull : (1ull << 31) + rng<uint64_t>(0, 1ull << 30);
                        c.seed = rng64(1, UINT64_MAX - 8);
                        return c;
                }
                if (ctx.optnum("shapes", 1) && shape == 1) {
                        int n = lanes >= 2 ? rng<int>(2, lanes > 3 ? 3 : lanes) : 1;
                        for (int i = 0; i < n; i++) {
                                std::vector<uint64_t> sg;
                                uint64_t g = (1ull << 30) + (uint64_t) i * 4099 * B + rng<uint64_t>(0, 1ull << 22);
                                if (coin(1, 3)) { sg.push_back(g); sg.push_back(rng<uint64_t>(0, 3 * B)); }
                                else sg.push_back(g);
                                c.segs.push_back(sg);
                        }
                        ctx.label("shape=twins");
                        return c;
                }
                if (ctx.optnum("shapes", 1) && shape == 2) {
                        int n = lanes > 32 ? 32 : lanes;
                        int g = rng<int>(0, n - 1), sidx = -1;
                        if (n > 1) {
                                // vector min-reductions pair lanes at power-of-two distances: put the shortest job there two times in three
                                if (coin(2, 3)) {
                                        int dist = 1 << rng<int>(0, 4);
                                        sidx = coin() ? g + dist : g - dist;
                                        if (sidx < 0 || sidx >= n) sidx = (g + dist) % n;
                                }
                                if (sidx < 0 || sidx == g) sidx = (g + 1 + rng<int>(0, n - 2)) % n;
                        }
                        uint64_t big = coin(1, 8) ? 0xffffffffull : (1ull << 31) + rng<uint64_t>(0, 1ull << 26);
                        int next_blocks = 2;
                        for (int i = 0; i < n; i++) {
                                std::vector<uint64_t> sg;
                                if (i == g) sg.push_back(big);
                                else if (i == sidx) sg.push_back(B + rng<uint64_t>(0, B - 1));
                                else sg.push_back((uint64_t) (next_blocks++) * B + rng<uint64_t>(0, B - 1));
                                c.segs.push_back(sg);
                        }
                        ctx.label("shape=crowd");
                        return c;
                }
                ctx.label("shape=across-2^32");
                int n = rng<int>(lanes >= 2 ? 2 : 1, lanes > 3 ? 3 : lanes);
                long p32 = ctx.optnum("p32", 25); // percent of the additional jobs that cross 2^32
                long full32 = ctx.optnum("full32", 1); // the first job of every case crosses 2^32 (lanes run in parallel, so the others are almost free)
                for (int i = 0; i < n; i++) {
                        int thr = (i == 0 && full32) ? (coin(1, 3) ? 2 : 1) : ((int) rng<int>(0, 99) < p32 ? (coin(1, 3) ? 2 : 1) : 0);
                        uint64_t T = thr == 0 ? (1ull << 29) : thr == 1 ? (1ull << 32) : (1ull << 32) + (1ull << 29);
                        // total = T + residue choice around block boundaries
                        int64_t d = pick<int64_t>({ 0, 1, (int64_t) B - 9, (int64_t) B - 8, (int64_t) B - 1, (int64_t) B, (int64_t) B + 1, 17, 3 * (int64_t) B + 5 });
                        uint64_t total = T + (uint64_t) d + (coin(1, 4) ? rng<uint64_t>(0, 5000) : 0);
                        // segmentation: a few large segments (each < 2^32), then small ones that walk across the threshold at odd residues
                        std::vector<uint64_t> s;
                        uint64_t left = total;
                        uint64_t approach = T > 4096 ? T - rng<uint64_t>(1, 4096) : 0; // stop shortly before the threshold
                        uint64_t done = 0;
                        while (done < approach) {
                                uint64_t maxseg = 0xffffffffull;
                                uint64_t want = approach - done;
                                uint64_t seg = want > maxseg ? (coin() ? maxseg : rng<uint64_t>(1ull << 28, maxseg)) : (coin(1, 2) ? want : rng<uint64_t>(1, want));
                                if (seg > want) seg = want;
                                s.push_back(seg);
                                done += seg;
                        }
                        left = total - done;
                        int k = rng<int>(1, 5);
                        for (int j = 0; j < k - 1 && left > 1; j++) {
                                uint64_t seg = coin() ? rng<uint64_t>(0, B + 9) : rng<uint64_t>(0, left < 9000 ? left : 9000);
                                if (seg > left) seg = left;
                                s.push_back(seg);
                                left -= seg;
                        }
                        s.push_back(left);
                        c.segs.push_back(s);
                }
                return c;
        };
        P.to_json = to_json;
        P.from_json = from_json;
        P.run = run;
        return pbt::main_(argc, argv, P);
}
