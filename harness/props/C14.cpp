// C14 - SAFE_DATA: when an AES entry point returns, no vector register and no dead stack memory holds a raw key,
//       a round key, the GHASH key or one of its powers, or the encrypted XTS tweak.
#include "../common/aes_ops.hpp"
#include "../common/tramp.hpp"
using aops::Case;
using aops::Secrets;
static aops::Ops g_O;

// scan the captured registers and the dead stack; returns a description or ""
static std::string scan(const Secrets &S, uint64_t call_rsp, uint8_t pattern, std::string &where_key)
{
        const TrampBlock &T = g_tramp;
        for (int r = 0; r < 32; r++)
                for (int o = 0; o + 16 <= 64; o++) {
                        std::string v((const char *) &T.out_zmm[r][o], 16);
                        if (S.set.count(v)) {
                                where_key = "zmm";
                                return std::string(S.what(v)) + " left in zmm" + std::to_string(r) + " (byte offset " + std::to_string(o) + ")";
                        }
                }
        // dead stack: from the deepest byte the callee changed up to the call's rsp
        const uint8_t *lo = (const uint8_t *) (call_rsp - tramp::DEAD), *hi = (const uint8_t *) call_rsp;
        const uint8_t *q = lo;
        while (q < hi && *q == pattern) q++;
        if (q > lo + 16) q -= 16;
        for (; q + 16 <= hi; q++) {
                std::string v((const char *) q, 16);
                if (S.set.count(v)) {
                        where_key = "stack";
                        return std::string(S.what(v)) + " left in dead stack at rsp-" + std::to_string((long) (hi - q));
                }
        }
        return "";
}

static bool run(const Case &c, pbt::Ctx &ctx)
{
        if (!tramp::host_has_avx512()) { ctx.label("host-without-avx512: vector capture unavailable"); return true; }
        auto failx = [&](const std::string &k, const std::string &m) { return ctx.fail(k + "|" + c.op, c.op + ": " + m); };
        guard::Arena A;
        guard::FaultInfo fi;
        aops::Built B;
        uint8_t pattern = 0xD7;
        int br = aops::build(c, g_O, A, B, ctx);
        if (br == 1 || br == 3) return true;
        if (br == 2) return false;
        tramp::prepare(B.fn, B.args, B.nargs, pattern, 0, true);
        bool ok = guard::guarded_call(fi, [&] { vtramp(); });
        if (!ok) {
                A.describe(fi);
                return !failx("fault", "fault: " + fi.where);
        }
        tramp::Result R = tramp::finish(B.nargs);
        std::string wk;
        std::string found = scan(B.S, R.call_rsp, pattern, wk);
        ctx.label("op=" + c.op);
        ctx.nontrivial = true;
        ctx.nt_key = c.op + "|" + B.exitclass;
        if (!found.empty()) {
                // root-cause key: entry + where + what kind of secret (not the input)
                std::string kind = found.substr(0, found.find(" left"));
                if (failx(wk + "|" + kind, found + " [" + B.exitclass + "]")) return false;
        }
        return true;
}

int main(int argc, char **argv)
{
        pbt::Prop<Case> P;
        P.id = "C14";
        P.setup = [](pbt::Ctx &ctx) {
                g_O.discover(ctx.optstr("op", ""));
                if (g_O.names.empty()) { fprintf(stderr, "HARNESS-ERROR: no AES entry available\n"); exit(3); }
        };
        P.gen = [](pbt::Ctx &) { return aops::gen_case(g_O); };
        P.to_json = [](const Case &c) { return aops::to_json(c); };
        P.from_json = [](const J &j) { return aops::from_json(j); };
        P.run = run;
        return pbt::main_(argc, argv, P);
}
