// C02 - AES-GCM one-shot equals SP 800-38D for every length, AAD and tag size, every family, nt variants.
#include "../common/aes_engine.hpp"
#include "../common/periodic.hpp"

struct Case {
        std::string fam;
        int dec = 0, nt = 0, inplace = 0;
        uint64_t seed = 1, len = 0, aad_len = 0;
        int tag_len = 16;
        int pl_in = 0, pl_out = 0, pl_aad = 0, pl_tag = 0, pl_iv = 0;
        uint32_t sh_in = 0, sh_out = 0, sh_aad = 0, sh_tag = 0, sh_iv = 0;
        int giant = 0; // 1: one-shot DECRYPT of more than 2^32 bytes: periodic read-only ciphertext, aliasing sink as output
};
static std::vector<ae::GcmFam> g_fams;

static J to_json(const Case &c)
{
        J j = J::obj();
        j.set("fam", c.fam).set("dec", c.dec).set("nt", c.nt).set("inplace", c.inplace).set("seed", (unsigned long long) c.seed);
        j.set("len", (unsigned long long) c.len).set("aad_len", (unsigned long long) c.aad_len).set("tag_len", c.tag_len);
        j.set("pl_in", c.pl_in).set("pl_out", c.pl_out).set("pl_aad", c.pl_aad).set("pl_tag", c.pl_tag).set("pl_iv", c.pl_iv);
        j.set("sh_in", c.sh_in).set("sh_out", c.sh_out).set("sh_aad", c.sh_aad).set("sh_tag", c.sh_tag).set("sh_iv", c.sh_iv).set("giant", c.giant);
        return j;
}
static Case from_json(const J &j)
{
        Case c;
        c.fam = j.at("fam").s;
        c.dec = j.num("dec", 0); c.nt = j.num("nt", 0); c.inplace = j.num("inplace", 0);
        c.seed = j.unum("seed", 1); c.len = j.unum("len", 0); c.aad_len = j.unum("aad_len", 0); c.tag_len = j.num("tag_len", 16);
        c.pl_in = j.num("pl_in", 0); c.pl_out = j.num("pl_out", 0); c.pl_aad = j.num("pl_aad", 0); c.pl_tag = j.num("pl_tag", 0); c.pl_iv = j.num("pl_iv", 0);
        c.sh_in = j.unum("sh_in", 0); c.sh_out = j.unum("sh_out", 0); c.sh_aad = j.unum("sh_aad", 0); c.sh_tag = j.unum("sh_tag", 0); c.sh_iv = j.unum("sh_iv", 0); c.giant = j.num("giant", 0);
        return c;
}

// ---- decrypt of more than 2^32 bytes.  The ciphertext is the periodic mapping (period 2^16 blocks), so GHASH over all of it is
// cheap: absorbing one period maps y to y*H^(2^16) + B with B the result from y = 0 (GHASH is linear in y).  The plaintext goes
// to the aliasing sink; its last MiB is compared with C xor keystream (counter = J0 + 1 + block index).
static bool run_giant(const Case &c, const ae::GcmFam *g, pbt::Ctx &ctx, const std::string &site)
{
        auto failx = [&](const std::string &k, const std::string &m) { return ctx.fail(k + "|" + site, site + ": " + m); };
        if (!c.dec || c.len < (1ull << 24) || c.len + 4096 > periodic::SPAN) { ctx.label("shrink artefact"); return true; }
        std::vector<uint8_t> key = pbt::expandv(c.seed, g->bits / 8), iv = pbt::expandv(c.seed + 1, 12), aad = pbt::expandv(c.seed + 2, c.aad_len);
        ref::Aes ra(key.data(), g->bits);
        guard::Arena A;
        guard::FaultInfo fi;
        uint8_t *kd = A.alloc("key_data", sizeof(isal_gcm_key_data), 16, guard::END, 0x11);
        uint8_t *cd = A.alloc("context_data", sizeof(isal_gcm_context_data), 16, guard::END, 0x22);
        uint8_t *kbuf = A.alloc("key", key.size(), 1, guard::END);
        memcpy(kbuf, key.data(), key.size());
        int rc = 0;
        if (!ae::gcm_prepare(*g, kbuf, kd, fi, &rc)) {
                A.describe(fi);
                return !failx("fault-pre", "fault in key precompute: " + fi.where);
        }
        A.set_readonly(kd);
        uint8_t *a = A.alloc("aad", c.aad_len, 1, guard::END);
        memcpy(a, aad.data(), c.aad_len);
        A.set_readonly(a);
        uint8_t *ivb = A.alloc("iv", 12, 1, guard::END);
        memcpy(ivb, iv.data(), 12);
        A.set_readonly(ivb);
        uint8_t *tag = A.alloc("tag", c.tag_len, 1, guard::END, 0x99);
        uint8_t *in = periodic::stream(), *out = periodic::sink();
        void *fn = g->oneshot[1][c.nt];
        bool ok = guard::guarded_call(fi, [&] {
                if (g->api) rc = ((ae::gcm_oneshot_ifn) fn)(kd, cd, out, in, c.len, ivb, a, c.aad_len, tag, c.tag_len);
                else ((ae::gcm_oneshot_fn) fn)(kd, cd, out, in, c.len, ivb, a, c.aad_len, tag, c.tag_len);
        });
        if (!ok) {
                A.describe(fi);
                return !failx("fault", "fault: " + fi.where + " (len " + std::to_string(c.len) + ")");
        }
        if (rc) return !failx("rc", "valid call returned " + std::to_string(rc));
        // expected tag
        uint8_t zero[16] = { 0 }, hk[16], y[16] = { 0 }, blk[16], j0[16];
        ra.encrypt(zero, hk);
        ref::Ghash G(hk);
        for (size_t o = 0; o < c.aad_len; o += 16) {
                size_t n = c.aad_len - o < 16 ? c.aad_len - o : 16;
                memset(blk, 0, 16);
                memcpy(blk, aad.data() + o, n);
                G.absorb(y, blk);
        }
        const uint64_t PB = periodic::PERIOD / 16;
        uint8_t hp[16], B[16] = { 0 };
        memcpy(hp, hk, 16);
        for (uint64_t q = 1; q < PB; q <<= 1) { uint8_t t[16]; memcpy(t, hp, 16); ref::ghash_mul(hp, t); } // H^(2^16)
        for (uint64_t i = 0; i < PB; i++) G.absorb(B, in + 16 * i);
        uint64_t full = c.len / 16;
        for (uint64_t p = 0; p < full / PB; p++) {
                ref::ghash_mul(y, hp);
                for (int k = 0; k < 16; k++) y[k] ^= B[k];
        }
        for (uint64_t i = 0; i < full % PB; i++) G.absorb(y, in + 16 * i); // (the mapping repeats: these are the blocks after the last whole period)
        if (c.len % 16) {
                memset(blk, 0, 16);
                memcpy(blk, in + 16 * (full % PB), c.len % 16);
                G.absorb(y, blk);
        }
        uint64_t abits = c.aad_len * 8, cbits = c.len * 8;
        for (int k = 0; k < 8; k++) { blk[k] = (uint8_t) (abits >> (56 - 8 * k)); blk[8 + k] = (uint8_t) (cbits >> (56 - 8 * k)); }
        G.absorb(y, blk);
        memcpy(j0, iv.data(), 12);
        j0[12] = j0[13] = j0[14] = 0;
        j0[15] = 1;
        uint8_t ej0[16];
        ra.encrypt(j0, ej0);
        for (int k = 0; k < 16; k++) y[k] ^= ej0[k];
        if (memcmp(tag, y, c.tag_len))
                if (failx("tag-giant", "tag differs from SP 800-38D for a decrypt of " + std::to_string(c.len) + " bytes (aad " + std::to_string(c.aad_len) + "): got " + ref::hex(tag, c.tag_len) +
                                               " want " + ref::hex(y, c.tag_len)))
                        return false;
        // expected plaintext, last MiB
        uint64_t first = (c.len - periodic::PERIOD + 15) / 16 * 16; // (earlier bytes of the sink have been overwritten by later ones)
        for (uint64_t o = first; o < c.len; o += 16) {
                uint8_t ctr[16], ks[16];
                memcpy(ctr, j0, 12);
                uint32_t cv = (uint32_t) (1 + 1 + o / 16);
                ctr[12] = (uint8_t) (cv >> 24); ctr[13] = (uint8_t) (cv >> 16); ctr[14] = (uint8_t) (cv >> 8); ctr[15] = (uint8_t) cv;
                ra.encrypt(ctr, ks);
                uint64_t n = c.len - o < 16 ? c.len - o : 16;
                for (uint64_t k = 0; k < n; k++)
                        if ((uint8_t) (in[o + k] ^ ks[k]) != out[o + k]) {
                                if (failx("output-giant", "plaintext differs from SP 800-38D at byte " + std::to_string(o + k) + " of " + std::to_string(c.len))) return false;
                                o = c.len;
                                break;
                        }
        }
        ctx.label("giant decrypt (> 2^32 bytes)");
        ctx.label("fam=" + c.fam + (c.nt ? "/nt" : ""));
        ctx.nontrivial = true;
        return true;
}

static bool run(const Case &c, pbt::Ctx &ctx)
{
        const ae::GcmFam *g = nullptr;
        for (auto &x : g_fams)
                if (x.label() == c.fam) g = &x;
        if (!g) { ctx.label("absent-family"); return true; }
        const std::string site = c.fam + (c.nt ? "/nt" : "") + (c.dec ? "/dec" : "/enc");
        auto failx = [&](const std::string &k, const std::string &m) { return ctx.fail(k + "|" + site, site + ": " + m); };
        if (!g->oneshot[c.dec][c.nt]) { ctx.label("absent-entry"); return true; }
        if (c.giant) return run_giant(c, g, ctx, site);

        std::vector<uint8_t> key = pbt::expandv(c.seed, g->bits / 8), iv = pbt::expandv(c.seed + 1, 12), aad = pbt::expandv(c.seed + 2, c.aad_len),
                             pt = pbt::expandv(c.seed + 3, c.len);
        ref::Aes ra(key.data(), g->bits);
        ref::GcmResult R = ref::gcm_crypt(ra, iv.data(), aad.data(), c.aad_len, pt.data(), c.len, false); // R.out = ciphertext
        const std::vector<uint8_t> &input = c.dec ? R.out : pt;
        const std::vector<uint8_t> &expect = c.dec ? pt : R.out;

        guard::Arena A;
        guard::FaultInfo fi;
        uint8_t *kd = A.alloc("key_data", sizeof(isal_gcm_key_data), 16, guard::END, 0x11);
        uint8_t *cd = A.alloc("context_data", sizeof(isal_gcm_context_data), 16, guard::END, 0x22);
        uint8_t *kbuf = A.alloc("key", key.size(), 1, guard::END);
        memcpy(kbuf, key.data(), key.size());
        A.set_readonly(kbuf);
        int rc = 0;
        if (!ae::gcm_prepare(*g, kbuf, kd, fi, &rc)) {
                A.describe(fi);
                return !failx("fault-pre", "fault in key precompute: " + fi.where);
        }
        if (rc) return !failx("rc-pre", "pre returned " + std::to_string(rc));
        A.set_readonly(kd);

        size_t dalign = c.nt ? 64 : 1;
        uint32_t sh_in = c.nt ? (c.sh_in & ~63u) : c.sh_in, sh_out = c.nt ? (c.sh_out & ~63u) : c.sh_out;
        uint8_t *in, *out;
        if (c.inplace && !c.nt) {
                out = in = A.alloc("inout", c.len, dalign, (guard::Place) c.pl_out, -1, sh_out);
                memcpy(in, input.data(), c.len);
        } else {
                in = A.alloc("in", c.len, dalign, (guard::Place) c.pl_in, -1, sh_in);
                memcpy(in, input.data(), c.len);
                A.set_readonly(in);
                out = A.alloc("out", c.len, dalign, (guard::Place) c.pl_out, 0x77, sh_out);
        }
        uint8_t *a = A.alloc("aad", c.aad_len, 1, (guard::Place) c.pl_aad, -1, c.sh_aad);
        memcpy(a, aad.data(), c.aad_len);
        A.set_readonly(a);
        uint8_t *ivb = A.alloc("iv", 12, 1, (guard::Place) c.pl_iv, -1, c.sh_iv);
        memcpy(ivb, iv.data(), 12);
        A.set_readonly(ivb);
        uint8_t *tag = A.alloc("tag", c.tag_len, 1, (guard::Place) c.pl_tag, 0x99, c.sh_tag);

        void *fn = g->oneshot[c.dec][c.nt];
        bool ok = guard::guarded_call(fi, [&] {
                if (g->api) rc = ((ae::gcm_oneshot_ifn) fn)(kd, cd, out, in, c.len, ivb, a, c.aad_len, tag, c.tag_len);
                else ((ae::gcm_oneshot_fn) fn)(kd, cd, out, in, c.len, ivb, a, c.aad_len, tag, c.tag_len);
        });
        if (!ok) {
                A.describe(fi);
                return !failx("fault", "fault: " + fi.where + " (len " + std::to_string(c.len) + ", aad " + std::to_string(c.aad_len) + ")");
        }
        if (rc) return !failx("rc", "valid call returned " + std::to_string(rc));
        std::string cn = A.check_canaries();
        if (!cn.empty() && failx("canary", cn)) return false;
        if (c.len && memcmp(out, expect.data(), c.len)) {
                size_t k = 0;
                while (out[k] == expect[k]) k++;
                if (failx("output", "output differs from SP 800-38D reference at byte " + std::to_string(k) + " of " + std::to_string(c.len))) return false;
        }
        if (memcmp(tag, R.tag, c.tag_len)) {
                if (failx("tag", "tag differs from reference (len " + std::to_string(c.len) + ", aad " + std::to_string(c.aad_len) + ", tag_len " +
                                         std::to_string(c.tag_len) + "): got " + ref::hex(tag, c.tag_len) + " want " + ref::hex(R.tag, c.tag_len)))
                        return false;
        }
        // round trip through the library: the opposite direction on the library's own output
        if (g->oneshot[!c.dec][0]) {
                uint8_t *back = A.alloc("back", c.len, 1, guard::END, 0x55);
                uint8_t *tag2 = A.alloc("tag2", c.tag_len, 1, guard::END, 0x44);
                std::vector<uint8_t> mid(out, out + c.len);
                uint8_t *midb = A.alloc("mid", c.len, 1, guard::END);
                memcpy(midb, mid.data(), c.len);
                void *fn2 = g->oneshot[!c.dec][0];
                ok = guard::guarded_call(fi, [&] {
                        if (g->api) rc = ((ae::gcm_oneshot_ifn) fn2)(kd, cd, back, midb, c.len, ivb, a, c.aad_len, tag2, c.tag_len);
                        else ((ae::gcm_oneshot_fn) fn2)(kd, cd, back, midb, c.len, ivb, a, c.aad_len, tag2, c.tag_len);
                });
                if (!ok) {
                        A.describe(fi);
                        return !failx("fault-roundtrip", "fault in round-trip call: " + fi.where);
                }
                if (c.len && memcmp(back, input.data(), c.len) && failx("roundtrip", "enc/dec round trip does not restore the input")) return false;
                if (memcmp(tag2, tag, c.tag_len) && failx("roundtrip-tag", "enc and dec disagree on the tag")) return false;
        }
        ctx.label("fam=" + c.fam + (c.nt ? "/nt" : ""));
        ctx.label(c.len == 0 ? "len=0" : c.len % 16 ? "len%16!=0" : "len%16==0");
        ctx.label("tag_len=" + std::to_string(c.tag_len));
        ctx.label(c.inplace && !c.nt ? "inplace" : "outofplace");
        ctx.nontrivial = (c.len % 16 != 0) || c.len > 128 || (c.aad_len % 16 != 0);
        return true;
}

int main(int argc, char **argv)
{
        pbt::Prop<Case> P;
        P.id = "C02";
        P.setup = [](pbt::Ctx &ctx) {
                std::string only = ctx.optstr("fam", "");
                for (auto &g : ae::gcm_families()) {
                        if (!only.empty() && g.label().find(only) == std::string::npos) continue;
                        if (!g.runnable) { ctx.notes.push_back("family skipped (host cannot execute it): " + g.label()); continue; }
                        g_fams.push_back(g);
                }
                if (g_fams.empty()) { fprintf(stderr, "HARNESS-ERROR: no GCM family available\n"); exit(3); }
        };
        P.gen = [](pbt::Ctx &ctx) {
                using namespace pbt;
                Case c;
                static long case_no = 0;
                if (case_no < ctx.optnum("giants", 0)) {
                        const ae::GcmFam &gg = g_fams[(size_t) (ctx.optnum("worker", 0) + case_no * ctx.optnum("workers", 1)) % g_fams.size()];
                        case_no++;
                        c.giant = 1;
                        c.fam = gg.label();
                        c.dec = 1;
                        c.nt = gg.oneshot[1][1] ? coin(1, 3) : 0;
                        c.seed = rng64(1, UINT64_MAX - 8);
                        c.len = (1ull << 32) + (coin(1, 3) ? pick<uint64_t>({ 0, 1, 15, 16, 17, 255 }) : rng<uint64_t>(0, 1 << 20));
                        if (c.nt) c.len &= ~63ull;
                        c.aad_len = ae::gen_aad_len();
                        c.tag_len = pick<int>({ 16, 12, 8 });
                        return c;
                }
                const ae::GcmFam &g = g_fams[rng<size_t>(0, g_fams.size() - 1)];
                c.fam = g.label();
                c.dec = coin();
                c.nt = g.oneshot[0][1] ? coin(1, 3) : 0;
                c.seed = rng64(1, UINT64_MAX - 8);
                c.len = ae::gen_gcm_len((uint64_t) ctx.optnum("bigmax", 300000));
                c.aad_len = ae::gen_aad_len();
                c.tag_len = pick<int>({ 16, 12, 8 });
                c.inplace = coin(1, 3);
                c.pl_in = weighted({ 2, 1 }); c.pl_out = weighted({ 2, 1 }); c.pl_aad = weighted({ 2, 1 }); c.pl_tag = weighted({ 2, 1 }); c.pl_iv = weighted({ 2, 1 });
                c.sh_in = coin(1, 3) ? rng<uint32_t>(0, 127) : 0;
                c.sh_out = coin(1, 3) ? rng<uint32_t>(0, 127) : 0;
                c.sh_aad = coin(1, 3) ? rng<uint32_t>(0, 63) : 0;
                c.sh_tag = coin(1, 3) ? rng<uint32_t>(0, 63) : 0;
                c.sh_iv = coin(1, 3) ? rng<uint32_t>(0, 63) : 0;
                return c;
        };
        P.to_json = to_json;
        P.from_json = from_json;
        P.run = run;
        return pbt::main_(argc, argv, P);
}
