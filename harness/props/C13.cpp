// C13 - FIPS build fails closed: after a failed self test every approved isal_ entry point returns the self-test
//       error and leaves its outputs untouched; nothing runs before the self tests; non-approved algorithms are always
//       refused; XTS refuses key1 == key2.     (built against the FIPS_MODE variant of the library)
#include "../common/entries.hpp"
#include "../common/fips_status.hpp"
#include <atomic>
#include <thread>
#include <unistd.h>

extern "C" {
int asm_check_self_tests_status(void);
void asm_set_self_tests_status(int);
int __real__aes_self_tests(void);
int __real__sha_self_tests(void);
}

// The status word is a local symbol of asm_self_tests.asm; it is located behaviourally (fips_status.hpp) so that the
// state can be read without the side effects of asm_check_self_tests_status (which claims NOT_DONE and spins while RUNNING).
static volatile uint32_t *status_ptr() { return fips::status_ptr(); }

// ST_WAIT_*: another thread is running the self tests (status RUNNING) when the call is made; the caller has to wait and then sees the published verdict
enum State { ST_FAILED = 0, ST_PASSED = 1, ST_FRESH_FAIL = 2, ST_FRESH_PASS = 3, ST_WAIT_FAIL = 4, ST_WAIT_PASS = 5, NSTATE = 6 };
static const char *state_name[] = { "failed", "passed", "not-run+failing-selftest", "not-run+passing-selftest", "running-elsewhere-then-fail", "running-elsewhere-then-pass" };

// ---- link-time wrapped self tests (-Wl,--wrap): outcome injection + "entered before any output changed" probe
static int g_inject_fail = 0, g_aes_entries = 0, g_sha_entries = 0;
static const ent::Call *g_cur = nullptr;
static std::vector<std::vector<uint8_t>> *g_snap = nullptr;
static bool g_output_changed_before_selftest = false;
static void probe_outputs()
{
        if (!g_cur || !g_snap) return;
        int k = 0;
        for (int i = 0; i < g_cur->nargs; i++) {
                const ent::ArgDesc &d = g_cur->desc[i];
                if (d.kind != ent::OUT && d.kind != ent::OBJ) continue;
                if (memcmp((*g_snap)[k].data(), d.ptr, d.size)) g_output_changed_before_selftest = true;
                k++;
        }
}
extern "C" int __wrap__aes_self_tests(void)
{
        g_aes_entries++;
        probe_outputs();
        if (g_inject_fail & 1) return 1; // the AES group reports a failure as 1
        return __real__aes_self_tests();
}
extern "C" int __wrap__sha_self_tests(void)
{
        g_sha_entries++;
        probe_outputs();
        if (g_inject_fail & 2) return -1; // the SHA group reports a failure as -1 (fips/sha_self_tests.c)
        return __real__sha_self_tests();
}

struct Case {
        std::string entry;
        int state = 0;
        uint64_t seed = 1, len = 64, aad_len = 16;
        int tag_len = 16;
        int same_keys = 0; // XTS only: 1 = same pointer for k1 and k2, 2 = equal copies, 3 = a copy that differs in ONE byte (must be accepted)
};
static J to_json(const Case &c)
{
        J j = J::obj();
        j.set("entry", c.entry).set("state", c.state).set("seed", (unsigned long long) c.seed).set("len", (unsigned long long) c.len);
        j.set("aad_len", (unsigned long long) c.aad_len).set("tag_len", c.tag_len).set("same_keys", c.same_keys);
        return j;
}
static Case from_json(const J &j)
{
        Case c;
        c.entry = j.at("entry").s;
        c.state = j.num("state", 0); c.seed = j.unum("seed", 1); c.len = j.unum("len", 64); c.aad_len = j.unum("aad_len", 16); c.tag_len = j.num("tag_len", 16);
        c.same_keys = j.num("same_keys", 0);
        return c;
}
static std::vector<ent::Entry> g_entries;

static void set_state(int st, uint64_t seed)
{
        g_inject_fail = 0;
        switch (st) {
        case ST_FAILED: fips::set_state(1); break;
        case ST_PASSED: fips::set_state(0); break;
        case ST_FRESH_FAIL: fips::set_state(2); g_inject_fail = 1 + (int) (seed % 3); break; // failing group: 1 aes, 2 sha, 3 both
        case ST_FRESH_PASS: fips::set_state(2); break;
        case ST_WAIT_FAIL:
        case ST_WAIT_PASS: fips::set_state(3); break; // SELF_TEST_RUNNING: somebody else has claimed the run
        }
}

static bool run(const Case &c, pbt::Ctx &ctx)
{
        const ent::Entry *e = nullptr;
        for (auto &x : g_entries)
                if (x.name == c.entry) e = &x;
        if (!e) { ctx.label("absent-entry"); return true; }
        const std::string site = c.entry;
        auto failx = [&](const std::string &k, const std::string &m) { return ctx.fail(k + "|" + site, site + " [" + state_name[c.state] + "]: " + m); };
        guard::Arena A;
        guard::FaultInfo fi;
        ent::Params p;
        p.seed = c.seed; p.len = c.len; p.aad_len = c.aad_len; p.tag_len = c.tag_len;
        p.w = 1 + c.seed % 48; p.mask = 0xff; p.trigger = 0;
        bool nt_variant = c.entry.find("_nt") != std::string::npos;
        if (nt_variant) p.len = p.len / 64 * 64;
        ent::Call call;
        // object preparation uses internal entry points only; make it independent of the self-test state anyway
        fips::set_state(0);
        if (!e->build(A, p, call)) { ctx.label("absent-entry"); return true; }
        // XTS with identical keys, as supplied
        bool xts = e->group == "xts";
        if (xts && c.same_keys) {
                if (c.same_keys == 1) call.argv[0] = call.argv[1];
                else {
                        uint8_t *copy = A.alloc("k2-copy-of-k1", call.desc[1].size, 1, guard::END);
                        memcpy(copy, call.desc[1].ptr, call.desc[1].size);
                        // (raw keys: k1 itself; expanded keys: the first round key is the raw key, so a flipped byte there is a different key too)
                        if (c.same_keys == 3) {
                                bool expanded = c.entry.find("expanded") != std::string::npos;
                                size_t raw = c.entry.find("256") != std::string::npos ? 32 : 16;
                                size_t span = expanded ? 16 : raw;
                                size_t pos = (c.seed >> 8) % 3 == 0 ? span - 1 : (c.seed >> 8) % 3 == 1 ? 0 : (c.seed >> 12) % span;
                                copy[pos] ^= (uint8_t) (1u << ((c.seed >> 20) % 8));
                        }
                        call.argv[0] = (uint64_t) copy;
                }
        }
        std::vector<std::vector<uint8_t>> snap;
        for (int i = 0; i < call.nargs; i++)
                if (call.desc[i].kind == ent::OUT || call.desc[i].kind == ent::OBJ) snap.push_back(ent::bytes_of(call.desc[i].ptr, call.desc[i].size));
        for (int i = 0; i < call.nargs; i++)
                if (call.desc[i].kind == ent::IN) A.set_readonly(call.desc[i].ptr);
        set_state(c.state, c.seed);
        g_cur = &call;
        g_snap = &snap;
        g_output_changed_before_selftest = false;
        g_aes_entries = g_sha_entries = 0;
        uint64_t ret = 0;
        bool ok = true;
        if (c.state == ST_WAIT_FAIL || c.state == ST_WAIT_PASS) {
                // the call is made on a second thread while this thread plays the self-test runner that publishes the verdict a little later
                std::atomic<int> started{ 0 };
                std::thread th([&] {
                        started.store(1);
                        ok = guard::guarded_call(fi, [&] { ret = ent::invoke(call, call.argv); });
                });
                while (!started.load()) {}
                usleep(150 + (unsigned) (c.seed % 400));
                fips::set_state(c.state == ST_WAIT_FAIL ? 1 : 0);
                th.join();
        } else {
                ok = guard::guarded_call(fi, [&] { ret = ent::invoke(call, call.argv); });
        }
        g_cur = nullptr;
        g_snap = nullptr;
        // the verdict must stick: a later isal_self_tests() (the injected failure is gone by then) reports the same verdict and does
        // not run the self tests again
        int injected = g_inject_fail, aes_first = g_aes_entries, sha_first = g_sha_entries, later_rc = -12345;
        g_inject_fail = 0;
        if (ok && (c.state == ST_FRESH_FAIL || c.state == ST_FRESH_PASS)) later_rc = isal_self_tests();
        int aes_later = g_aes_entries - aes_first, sha_later = g_sha_entries - sha_first;
        g_aes_entries = aes_first;
        g_sha_entries = sha_first;
        fips::set_state(0);
        if (!ok) {
                A.describe(fi);
                return !failx("fault", "fault: " + fi.where);
        }
        int rc = (int) ret;
        bool untouched = true;
        int k = 0;
        std::string touched_name;
        for (int i = 0; i < call.nargs; i++) {
                const ent::ArgDesc &d = call.desc[i];
                if (d.kind != ent::OUT && d.kind != ent::OBJ) continue;
                if (memcmp(snap[k].data(), d.ptr, d.size)) { untouched = false; touched_name = d.name; }
                k++;
        }
        std::string cn = A.check_canaries();
        if (!cn.empty() && failx("canary", cn)) return false;
        bool failing = c.state == ST_FAILED || c.state == ST_FRESH_FAIL || c.state == ST_WAIT_FAIL;
        ctx.label(std::string("state=") + state_name[c.state]);
        ctx.label("class=" + std::string(e->cls == ent::APPROVED ? "approved" : e->cls == ent::NONAPPROVED ? "non-approved" : "other"));
        ctx.nontrivial = c.state != ST_PASSED;
        ctx.nt_key = c.entry + "|" + std::to_string(c.state) + "|" + std::to_string(c.same_keys) + "|" + std::to_string(c.len % 16 ? 1 : 0) + std::to_string(c.len > 128);

        if (e->cls == ent::NONAPPROVED) {
                if (rc != ISAL_CRYPTO_ERR_FIPS_INVALID_ALGO && failx("nonapproved-rc", "non-approved algorithm returned " + std::to_string(rc) + " instead of FIPS_INVALID_ALGO")) return false;
                if (!untouched && failx("nonapproved-output", "non-approved algorithm changed its output/object '" + touched_name + "'")) return false;
                return true;
        }
        if (e->cls == ent::OTHER) {
                if (c.entry == "isal_self_tests") {
                        int want = failing ? ISAL_CRYPTO_ERR_SELF_TEST : 0;
                        if (rc != want && failx("selftests-rc", "isal_self_tests returned " + std::to_string(rc) + " expected " + std::to_string(want))) return false;
                        if ((c.state == ST_FRESH_FAIL || c.state == ST_FRESH_PASS) && g_aes_entries != 1 && failx("selftests-not-run", "self tests not run exactly once on first use")) return false;
                }
                return true;
        }
        // ---- approved
        if (xts && c.same_keys && c.same_keys != 3) {
                bool okrc = rc == ISAL_CRYPTO_ERR_XTS_SAME_KEYS || (failing && rc == ISAL_CRYPTO_ERR_SELF_TEST);
                if (!okrc && failx("xts-same-keys-rc", "identical data and tweak keys accepted: returned " + std::to_string(rc))) return false;
                if (!untouched && failx("xts-same-keys-output", "output changed although the keys are identical")) return false;
                return true;
        }
        if (failing) {
                if (rc != ISAL_CRYPTO_ERR_SELF_TEST && failx("gate-rc", "returned " + std::to_string(rc) + " instead of ISAL_CRYPTO_ERR_SELF_TEST")) return false;
                if (!untouched && failx("gate-output", "output/object '" + touched_name + "' changed although the self tests failed")) return false;
        } else {
                if (rc != 0 && failx("pass-rc", "returned " + std::to_string(rc) + " although the self tests passed")) return false;
        }
        if (c.state == ST_FRESH_FAIL || c.state == ST_FRESH_PASS) {
                if (g_aes_entries != 1 || g_sha_entries > 1)
                        if (failx("selftests-not-run", "first call did not run the self tests exactly once (aes " + std::to_string(g_aes_entries) + ", sha " + std::to_string(g_sha_entries) + ")")) return false;
                if (g_output_changed_before_selftest && failx("work-before-selftest", "an output byte changed before the self tests were entered")) return false;
                int want_later = c.state == ST_FRESH_FAIL ? ISAL_CRYPTO_ERR_SELF_TEST : 0;
                std::string grp = injected == 1 ? "aes" : injected == 2 ? "sha" : injected == 3 ? "aes+sha" : "no";
                if (later_rc != want_later)
                        if (failx("verdict-not-sticky", "after a first call with " + grp + " self-test group failing, a later isal_self_tests() returned " + std::to_string(later_rc) +
                                                                " instead of " + std::to_string(want_later)))
                                return false;
                if ((aes_later || sha_later) && failx("selftests-run-again", "a later call ran the self tests again (" + grp + " group had failed)")) return false;
        }
        return true;
}

int main(int argc, char **argv)
{
        pbt::Prop<Case> P;
        P.id = "C13";
        P.setup = [](pbt::Ctx &ctx) {
                g_entries = ent::all_entries();
                std::set<std::string> known;
                for (auto &e : g_entries) known.insert(e.name);
                for (auto &s : ent::archive_isal_symbols())
                        if (!known.count(s)) ctx.notes.push_back("UNCOVERED: isal_ entry point not in the catalog (not judged): " + s);
                for (auto &e : g_entries)
                        if (!isal::sym(e.name)) ctx.notes.push_back("catalog entry absent from the archive: " + e.name);
                if (!status_ptr()) { fprintf(stderr, "HARNESS-ERROR: cannot locate the self-test status word\n"); exit(3); }
                fips::set_state(0);
                if (isal_self_tests() == ISAL_CRYPTO_ERR_FIPS_DISABLED) { fprintf(stderr, "HARNESS-ERROR: C13 needs the FIPS_MODE variant of the library\n"); exit(3); }
                fips::set_state(0);
        };
        P.gen = [](pbt::Ctx &) {
                using namespace pbt;
                Case c;
                const ent::Entry &e = g_entries[rng<size_t>(0, g_entries.size() - 1)];
                c.entry = e.name;
                c.state = rng<int>(0, NSTATE - 1);
                c.seed = rng64(1, UINT64_MAX - 8);
                c.len = weighted({ 1, 6, 3 }) == 0 ? 0 : (coin() ? 16 * rng<uint64_t>(1, 40) : rng<uint64_t>(1, 1500));
                if (e.group == "cbc" || e.group == "xts") c.len = 16 * rng<uint64_t>(1, 40) + (e.group == "xts" ? rng<uint64_t>(0, 15) : 0);
                c.aad_len = coin(1, 4) ? 0 : rng<uint64_t>(1, 64);
                c.tag_len = pick<int>({ 16, 12, 8 });
                c.same_keys = e.group == "xts" ? weighted({ 2, 1, 1, 2 }) : 0;
                return c;
        };
        P.to_json = to_json;
        P.from_json = from_json;
        P.run = run;
        return pbt::main_(argc, argv, P);
}
