// C08 - no library function reads outside the byte ranges supplied as inputs or writes outside the ranges designated
//       as outputs, for every length and alignment incl. buffers that begin or end exactly at an unmapped page; inputs
//       and constant key data are never modified.  Oracle: guard pages, read-only input mappings, canaries.
#include "../common/aes_ops.hpp"
#include "../common/entries.hpp"
#include "../common/hash_engine.hpp"
#include "../common/mh_engine.hpp"

struct Case {
        std::string kind; // hash | mh | aes | cat | roll | gcmstream
        he::Case h;
        mh::Case m;
        aops::Case a;
        // cat
        std::string entry;
        int legacy = 0;
        uint64_t seed = 1, len = 64, aad_len = 16;
        int tag_len = 16, flags = 3;
        // roll
        uint32_t w = 16, mask = 0, trigger = 0;
        std::vector<uint32_t> maxlens;
        int place = 0;
        std::string scan;
        // gcmstream
        std::string fam;
        int dec = 0, nt = 0;
        std::vector<uint64_t> pieces;
};
static J to_json(const Case &c)
{
        J j = J::obj();
        j.set("kind", c.kind);
        if (c.kind == "hash") j.set("h", he::to_json(c.h));
        else if (c.kind == "mh") j.set("m", mh::to_json(c.m));
        else if (c.kind == "aes") j.set("a", aops::to_json(c.a));
        else if (c.kind == "cat")
                j.set("entry", c.entry).set("legacy", c.legacy).set("seed", (unsigned long long) c.seed).set("len", (unsigned long long) c.len).set("aad_len", (unsigned long long) c.aad_len)
                        .set("tag_len", c.tag_len).set("flags", c.flags);
        else if (c.kind == "roll") {
                j.set("seed", (unsigned long long) c.seed).set("w", c.w).set("mask", c.mask).set("trigger", c.trigger).set("len", (unsigned long long) c.len).set("place", c.place).set("scan", c.scan);
                J a = J::arr();
                for (auto m : c.maxlens) a.push(J(m));
                j.set("maxlens", a);
        } else {
                j.set("fam", c.fam).set("dec", c.dec).set("nt", c.nt).set("seed", (unsigned long long) c.seed).set("aad_len", (unsigned long long) c.aad_len).set("tag_len", c.tag_len)
                        .set("place", c.place);
                J a = J::arr();
                for (auto m : c.pieces) a.push(J((unsigned long long) m));
                j.set("pieces", a);
        }
        return j;
}
static Case from_json(const J &j)
{
        Case c;
        c.kind = j.at("kind").s;
        if (c.kind == "hash") c.h = he::from_json(j.at("h"));
        else if (c.kind == "mh") c.m = mh::from_json(j.at("m"));
        else if (c.kind == "aes") c.a = aops::from_json(j.at("a"));
        else if (c.kind == "cat") {
                c.entry = j.at("entry").s;
                c.legacy = j.num("legacy", 0); c.seed = j.unum("seed", 1); c.len = j.unum("len", 64); c.aad_len = j.unum("aad_len", 16); c.tag_len = j.num("tag_len", 16);
                c.flags = j.num("flags", 3);
        } else if (c.kind == "roll") {
                c.seed = j.unum("seed", 1); c.w = j.unum("w", 16); c.mask = j.unum("mask", 0); c.trigger = j.unum("trigger", 0); c.len = j.unum("len", 0); c.place = j.num("place", 0);
                c.scan = j.str("scan", "dispatch");
                for (auto &m : j.at("maxlens").a) c.maxlens.push_back((uint32_t) m.unum());
        } else {
                c.fam = j.at("fam").s;
                c.dec = j.num("dec", 0); c.nt = j.num("nt", 0); c.seed = j.unum("seed", 1); c.aad_len = j.unum("aad_len", 0); c.tag_len = j.num("tag_len", 16); c.place = j.num("place", 0);
                for (auto &m : j.at("pieces").a) c.pieces.push_back(m.unum());
        }
        return c;
}

static std::vector<isal::HashFamily> g_hash;
static std::vector<mh::Fam> g_mh;
static aops::Ops g_O;
static std::vector<ent::Entry> g_entries;
static void **g_roll_dispatched = nullptr;

static bool run(const Case &c, pbt::Ctx &ctx)
{
        guard::FaultInfo fi;
        ctx.label("kind=" + c.kind);
        if (c.kind == "hash") {
                const isal::HashFamily *f = nullptr;
                for (auto &x : g_hash)
                        if (x.label() == c.h.fam) f = &x;
                if (!f) return true;
                he::ExecStats st;
                bool ok = he::execute(c.h, *f, ctx, st);
                for (auto &m : c.h.cmds)
                        if (m.kind == he::K_SUBMIT && m.len % 64 && m.place == guard::END) ctx.nontrivial = true;
                return ok;
        }
        if (c.kind == "mh") {
                const mh::Fam *f = nullptr;
                for (auto &x : g_mh)
                        if (x.label() == c.m.fam) f = &x;
                if (!f) return true;
                mh::Stats st;
                bool ok = mh::execute(c.m, *f, ctx, st);
                for (auto &p : c.m.pieces)
                        if (p.len % 64 && p.place == guard::END) ctx.nontrivial = true;
                if (c.m.giant == 3) { ctx.nontrivial = true; ctx.label("mh update whose 32-bit length sum wraps"); }
                return ok;
        }
        if (c.kind == "aes") {
                guard::Arena A;
                aops::Built B;
                int br = aops::build(c.a, g_O, A, B, ctx);
                if (br == 1 || br == 3) return true;
                if (br == 2) return false;
                for (uint8_t *p : B.inputs) A.set_readonly(p);
                bool okc = guard::guarded_call(fi, [&] { isal::call_fn(B.fn, { B.args[0], B.args[1], B.args[2], B.args[3], B.args[4], B.args[5], B.args[6], B.args[7], B.args[8], B.args[9] }); });
                if (!okc) {
                        A.describe(fi);
                        return !ctx.fail("fault|" + c.a.op + "|" + (fi.write ? "write" : "read"), c.a.op + " [" + B.exitclass + "]: " + fi.where);
                }
                std::string cn = A.check_canaries();
                if (!cn.empty() && ctx.fail("canary|" + c.a.op, c.a.op + " [" + B.exitclass + "]: " + cn)) return false;
                ctx.nontrivial = (B.data_len % 64) != 0 && ((c.a.pl & 3) != 3);
                ctx.label("op=" + c.a.op.substr(0, c.a.op.find('/')));
                return true;
        }
        if (c.kind == "cat") {
                const ent::Entry *e = nullptr;
                for (auto &x : g_entries)
                        if (x.name == c.entry) e = &x;
                if (!e) return true;
                guard::Arena A;
                ent::Params p;
                p.seed = c.seed; p.len = c.len; p.aad_len = c.aad_len; p.tag_len = c.tag_len; p.flags = c.flags; p.legacy = c.legacy && !e->legacy.empty();
                p.w = 1 + c.seed % 48; p.mask = 0x1f; p.trigger = (uint32_t) (c.seed >> 11);
                if (c.entry.find("_nt") != std::string::npos) p.len = p.len / 64 * 64;
                if (e->group == "cbc") p.len = p.len / 16 * 16;
                ent::Call call;
                if (!e->build(A, p, call)) return true;
                for (int i = 0; i < call.nargs; i++)
                        if (call.desc[i].kind == ent::IN) A.set_readonly(call.desc[i].ptr);
                uint64_t ret = 0;
                bool okc = guard::guarded_call(fi, [&] { ret = ent::invoke(call, call.argv); });
                if (!okc) {
                        A.describe(fi);
                        return !ctx.fail("fault|" + call.entry + "|" + (fi.write ? "write" : "read"), call.entry + " (len " + std::to_string(p.len) + "): " + fi.where);
                }
                std::string cn = A.check_canaries();
                if (!cn.empty() && ctx.fail("canary|" + call.entry, call.entry + ": " + cn)) return false;
                ctx.nontrivial = p.len % 64 != 0;
                return true;
        }
        if (c.kind == "roll") {
                void *scanfn = nullptr, *saved = nullptr;
                if (c.scan != "dispatch" && g_roll_dispatched) {
                        scanfn = isal::sym("_rolling_hash2_run_until_" + c.scan);
                        if (!scanfn || !isal::host_can_run(c.scan)) return true;
                }
                guard::Arena A;
                uint8_t *st = A.alloc("state", sizeof(isal_rh_state2), 8, guard::END, 0x44);
                std::vector<uint8_t> stream = pbt::expandv(c.seed, c.len);
                uint8_t *ib = A.alloc("init_bytes", c.w, 1, guard::END);
                pbt::expand(c.seed + 1, ib, c.w);
                A.set_readonly(ib);
                uint32_t *off = (uint32_t *) A.alloc("offset", 4, 4, guard::END, 1);
                int *match = (int *) A.alloc("match", 4, 4, guard::END, 2);
                bool okc = guard::guarded_call(fi, [&] {
                        isal_rolling_hash2_init((isal_rh_state2 *) st, c.w);
                        isal_rolling_hash2_reset((isal_rh_state2 *) st, ib);
                });
                if (!okc) {
                        A.describe(fi);
                        return !ctx.fail("fault|rolling-init", "rolling init/reset: " + fi.where);
                }
                if (scanfn) { saved = *g_roll_dispatched; *g_roll_dispatched = scanfn; }
                struct Restore { void **p; void *v; bool on; ~Restore() { if (on) *p = v; } } restore{ g_roll_dispatched, saved, scanfn != nullptr };
                uint32_t pos = 0;
                for (size_t call = 0; call < 300 && pos < c.len; call++) {
                        uint32_t ml = c.maxlens.empty() ? (uint32_t) c.len - pos : c.maxlens[call % c.maxlens.size()];
                        if (ml > c.len - pos) ml = (uint32_t) c.len - pos;
                        uint8_t *buf = A.alloc("buffer", ml, 1, (guard::Place) c.place);
                        memcpy(buf, stream.data() + pos, ml);
                        A.set_readonly(buf);
                        *off = 0;
                        okc = guard::guarded_call(fi, [&] { isal_rolling_hash2_run((isal_rh_state2 *) st, buf, ml, c.mask, c.trigger & c.mask, off, match); });
                        if (!okc) {
                                A.describe(fi);
                                return !ctx.fail(std::string("fault|rolling-run|scan=") + c.scan, "rolling run (scan " + c.scan + ", w " + std::to_string(c.w) + ", max_len " + std::to_string(ml) + "): " + fi.where);
                        }
                        std::string cn = A.check_canaries();
                        if (!cn.empty() && ctx.fail("canary|rolling-run", cn)) return false;
                        if (*off > ml) return !ctx.fail(std::string("offset-beyond-max|scan=") + c.scan, "rolling run reported offset " + std::to_string(*off) + " > max_len " + std::to_string(ml));
                        A.release(buf);
                        if (*off == 0 && ml == 0) { if (c.maxlens.size() <= 1) break; continue; }
                        pos += *off ? *off : ml;
                        if (ml % 64) ctx.nontrivial = true;
                }
                ctx.label("scan=" + c.scan);
                return true;
        }
        // gcmstream: init / update* / finalize with every piece in its own exactly-sized guarded buffer
        const ae::GcmFam *g = nullptr;
        for (auto &x : g_O.gcm)
                if (x.label() == c.fam) g = &x;
        if (!g || !g->init || !g->update[c.dec][c.nt] || !g->finalize[c.dec]) return true;
        guard::Arena A;
        uint8_t *kd = A.alloc("key_data", sizeof(isal_gcm_key_data), 16, guard::END, 0x11);
        uint8_t *cd = A.alloc("context_data", sizeof(isal_gcm_context_data), 16, guard::END, 0x22);
        std::vector<uint8_t> key = pbt::expandv(c.seed, g->bits / 8);
        if (!ae::gcm_prepare(*g, key.data(), kd, fi)) {
                A.describe(fi);
                return !ctx.fail("fault|gcm-pre|" + c.fam, c.fam + " pre: " + fi.where);
        }
        A.set_readonly(kd);
        uint8_t *iv = A.alloc("iv", 12, 1, guard::END), *aad = A.alloc("aad", c.aad_len, 1, (guard::Place) c.place);
        pbt::expand(c.seed + 1, iv, 12);
        pbt::expand(c.seed + 2, aad, c.aad_len);
        A.set_readonly(iv);
        A.set_readonly(aad);
        uint8_t *tag = A.alloc("tag", c.tag_len, 1, guard::END, 9);
        const std::string site = c.fam + (c.nt ? "/nt" : "") + (c.dec ? "/dec" : "/enc");
        bool okc = guard::guarded_call(fi, [&] { isal::call_fn(g->init, { (uint64_t) kd, (uint64_t) cd, (uint64_t) iv, (uint64_t) aad, c.aad_len }); });
        if (!okc) {
                A.describe(fi);
                return !ctx.fail("fault|gcm-init|" + site, site + " init (aad " + std::to_string(c.aad_len) + "): " + fi.where);
        }
        uint64_t off = 0;
        for (size_t i = 0; i < c.pieces.size(); i++) {
                uint64_t n = c.pieces[i];
                size_t al = c.nt ? 64 : 1;
                uint8_t *in = A.alloc("update-in", n, al, (guard::Place) c.place), *out = A.alloc("update-out", n, al, (guard::Place) c.place, 7);
                pbt::expand(c.seed + 10 + i, in, n);
                A.set_readonly(in);
                okc = guard::guarded_call(fi, [&] { isal::call_fn(g->update[c.dec][c.nt], { (uint64_t) kd, (uint64_t) cd, (uint64_t) out, (uint64_t) in, n }); });
                if (!okc) {
                        A.describe(fi);
                        return !ctx.fail("fault|gcm-update|" + site + "|" + (fi.write ? "write" : "read"),
                                         site + " update " + std::to_string(i) + " (len " + std::to_string(n) + ", carried " + std::to_string(off % 16) + "): " + fi.where);
                }
                std::string cn = A.check_canaries();
                if (!cn.empty() && ctx.fail("canary|gcm-update|" + site, site + ": " + cn)) return false;
                A.release(in);
                A.release(out);
                if (n % 64 && c.place == guard::END) ctx.nontrivial = true;
                off += n;
        }
        okc = guard::guarded_call(fi, [&] { isal::call_fn(g->finalize[c.dec], { (uint64_t) kd, (uint64_t) cd, (uint64_t) tag, (uint64_t) c.tag_len }); });
        if (!okc) {
                A.describe(fi);
                return !ctx.fail("fault|gcm-finalize|" + site, site + " finalize (tag_len " + std::to_string(c.tag_len) + "): " + fi.where);
        }
        std::string cn = A.check_canaries();
        if (!cn.empty() && ctx.fail("canary|gcm-finalize|" + site, site + ": " + cn)) return false;
        return true;
}

int main(int argc, char **argv)
{
        pbt::Prop<Case> P;
        P.id = "C08";
        P.setup = [](pbt::Ctx &ctx) {
                for (auto &f : isal::hash_families())
                        if (f.runnable) g_hash.push_back(f);
                        else ctx.notes.push_back("family skipped (host cannot execute it): " + f.label());
                for (auto &f : mh::families({ mh::MH_SHA1, mh::MH_SHA256, mh::MH_MURMUR }))
                        if (f.runnable) g_mh.push_back(f);
                g_O.discover("");
                for (auto &e : ent::all_entries())
                        if (e.cls != ent::OTHER) g_entries.push_back(e);
                g_roll_dispatched = (void **) isal::sym("_rolling_hash2_run_until_dispatched");
        };
        P.gen = [](pbt::Ctx &ctx) {
                using namespace pbt;
                Case c;
                c.seed = rng64(1, UINT64_MAX - 8);
                // the first `wraps` cases of every worker: one multi-hash update of almost 2^32 bytes onto a carried partial block
                // (families taken round-robin over the workers)
                static long case_no = 0;
                if (case_no < ctx.optnum("wraps", 0) && !g_mh.empty()) {
                        size_t fi = (size_t) (ctx.optnum("worker", 0) + case_no * ctx.optnum("workers", 1)) % g_mh.size();
                        case_no++;
                        c.kind = "mh";
                        c.m = mh::gen_case(g_mh[fi], 0, 0, 3);
                        return c;
                }
                switch (weighted({ 3, 2, 6, 3, 2, 3 })) {
                case 0: {
                        c.kind = "hash";
                        he::GenOpts go;
                        go.allow_bad = false;
                        go.max_cmds = 40;
                        go.big_max = (uint32_t) ctx.optnum("bigmax", 70000);
                        c.h = he::gen_case(g_hash[rng<size_t>(0, g_hash.size() - 1)], go);
                        break;
                }
                case 1:
                        c.kind = "mh";
                        c.m = mh::gen_case(g_mh[rng<size_t>(0, g_mh.size() - 1)], (uint64_t) ctx.optnum("bigmax", 70000));
                        break;
                case 2:
                        c.kind = "aes";
                        c.a = aops::gen_case(g_O);
                        if (c.a.op.compare(0, 3, "cbc") == 0 && coin(1, 8)) c.a.len = 0; // zero length is inside the CBC domain (builder turns 0 into 1 block: see cat kind for len 0)
                        break;
                case 3: {
                        c.kind = "cat";
                        const ent::Entry &e = g_entries[rng<size_t>(0, g_entries.size() - 1)];
                        c.entry = e.name;
                        c.legacy = coin(1, 3);
                        c.len = weighted({ 2, 6, 3 }) == 0 ? 0 : (coin() ? 16 * rng<uint64_t>(1, 40) : rng<uint64_t>(1, 1500));
                        if (e.group == "xts") c.len = 16 * rng<uint64_t>(1, 40) + rng<uint64_t>(0, 15);
                        c.aad_len = coin(1, 4) ? 0 : rng<uint64_t>(1, 64);
                        c.tag_len = pick<int>({ 16, 12, 8 });
                        c.flags = pick<int>({ ISAL_HASH_ENTIRE, ISAL_HASH_FIRST });
                        break;
                }
                case 4: {
                        c.kind = "roll";
                        c.w = rng<uint32_t>(1, 48);
                        c.len = rng<uint64_t>(1, 3000);
                        int bits = weighted({ 1, 3, 3, 2 }) < 3 ? rng<int>(0, 3) : rng<int>(4, 10); // few mask bits: hits (also on the last byte of a call) are frequent
                        for (int i = 0; i < bits; i++) c.mask |= 1u << rng<int>(0, 31);
                        c.trigger = rng<uint32_t>(0, 0xffffffffu);
                        int k = rng<int>(0, 5);
                        for (int i = 0; i < k; i++) c.maxlens.push_back(weighted({ 1, 3, 3 }) == 0 ? 0 : (coin() ? rng<uint32_t>(1, c.w + 9) : rng<uint32_t>(1, 700)));
                        bool allzero = true;
                        for (auto m : c.maxlens) allzero &= m == 0;
                        if (allzero && !c.maxlens.empty()) c.maxlens.push_back(c.w + 2);
                        c.place = weighted({ 1, 1 });
                        c.scan = g_roll_dispatched ? pick<std::string>({ "base", "00", "04", "dispatch" }) : std::string("dispatch");
                        break;
                }
                default: {
                        c.kind = "gcmstream";
                        const ae::GcmFam &g = g_O.gcm[rng<size_t>(0, g_O.gcm.size() - 1)];
                        c.fam = g.label();
                        c.dec = coin();
                        c.nt = g.update[0][1] ? coin(1, 4) : 0;
                        c.aad_len = ae::gen_aad_len();
                        if (c.aad_len > 2048) c.aad_len = 2048;
                        c.tag_len = pick<int>({ 16, 12, 8 });
                        c.place = weighted({ 2, 1 });
                        int k = rng<int>(1, 8);
                        for (int i = 0; i < k; i++) {
                                uint64_t n = weighted({ 1, 5, 4, 3 }) == 0 ? 0 : (coin() ? rng<uint64_t>(1, 47) : rng<uint64_t>(48, 2100));
                                if (c.nt && i != k - 1) n = (n + 63) / 64 * 64;
                                c.pieces.push_back(n);
                        }
                        break;
                }
                }
                return c;
        };
        P.to_json = to_json;
        P.from_json = from_json;
        P.run = run;
        return pbt::main_(argc, argv, P);
}
