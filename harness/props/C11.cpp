// C11 - a rejected hash submit changes nothing and poisons no later call.
// Rejected submits (invalid flags / context in flight / context already completed) are injected at every kind of
// point of otherwise valid histories; before/after byte images, return codes and later digests are the oracle.
#include "../common/hash_engine.hpp"
static std::vector<isal::HashFamily> g_fams;
int main(int argc, char **argv)
{
        pbt::Prop<he::Case> P;
        P.id = "C11";
        P.setup = [](pbt::Ctx &ctx) {
                std::string only = ctx.optstr("fam", "");
                for (auto &f : isal::hash_families()) {
                        if (!only.empty() && f.label().find(only) == std::string::npos) continue;
                        if (!f.runnable) { ctx.notes.push_back("family skipped (host cannot execute it): " + f.label()); continue; }
                        g_fams.push_back(f);
                }
                if (g_fams.empty()) { fprintf(stderr, "HARNESS-ERROR: no hash family available\n"); exit(3); }
        };
        P.gen = [](pbt::Ctx &ctx) {
                // the isal_ API (return codes) gets a third of the cases, family entry points the rest
                std::vector<size_t> api, other;
                for (size_t i = 0; i < g_fams.size(); i++) (g_fams[i].is_isal() ? api : other).push_back(i);
                size_t idx = (!api.empty() && (other.empty() || pbt::coin(1, 3))) ? api[pbt::rng<size_t>(0, api.size() - 1)] : other[pbt::rng<size_t>(0, other.size() - 1)];
                he::GenOpts go;
                go.allow_bad = true;
                go.bad_pct = 25;
                go.big_max = (uint32_t) ctx.optnum("bigmax", 16 * 1024);
                go.max_cmds = 50;
                return he::gen_case(g_fams[idx], go);
        };
        P.to_json = [](const he::Case &c) { return he::to_json(c); };
        P.from_json = [](const J &j) { return he::from_json(j); };
        P.run = [](const he::Case &c, pbt::Ctx &ctx) {
                const isal::HashFamily *f = nullptr;
                for (auto &x : g_fams)
                        if (x.label() == c.fam) f = &x;
                if (!f) { ctx.label("absent-family"); return true; }
                he::ExecStats st;
                bool ok = he::execute(c, *f, ctx, st);
                ctx.label("fam=" + c.fam);
                ctx.label("rejected", st.rejected);
                ctx.label("rejected_with_other_inflight", st.rejected_with_inflight);
                ctx.label("valid_submit_after_reject_same_ctx", st.valid_after_reject);
                ctx.nontrivial = st.rejected_with_inflight > 0 && st.calls >= st.rejected + 2;
                return ok;
        };
        return pbt::main_(argc, argv, P);
}
