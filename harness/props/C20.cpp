// C20 - results depend on declared inputs only: every operation is executed twice with identical declared inputs and
//       complementary hidden state (pre-fill of outputs and of not-yet-initialised objects, caller-saved GPRs beyond the
//       arguments, zmm0-31, k0-7, arithmetic flags, the dead stack) and every observable must be identical.
#include "../common/obsops.hpp"
using oo::Case;

static bool run(const Case &c, pbt::Ctx &ctx)
{
        std::vector<uint8_t> o0, o1;
        bool nt0 = false, nt1 = false;
        std::string site;
        if (!oo::execute(c, 0, ctx, o0, nt0, site)) return false;
        if (!oo::execute(c, 1, ctx, o1, nt1, site)) return false;
        ctx.label("kind=" + c.kind);
        ctx.nontrivial = nt0 || nt1;
        if (o0 != o1) {
                size_t k = 0;
                while (k < o0.size() && k < o1.size() && o0[k] == o1[k]) k++;
                if (ctx.fail("hidden-input|" + site, site + ": observable result differs between two executions that agree on all declared inputs (first difference at observable byte " +
                                                             std::to_string(k) + " of " + std::to_string(o0.size()) + ")"))
                        return false;
        }
        return true;
}

int main(int argc, char **argv)
{
        pbt::Prop<Case> P;
        P.id = "C20";
        P.setup = [](pbt::Ctx &ctx) {
                oo::discover(ctx);
                if (!tramp::host_has_avx512()) ctx.notes.push_back("host without AVX-512: vector registers are not varied by the trampoline");
        };
        P.gen = [](pbt::Ctx &) { return oo::gen_case(); };
        P.to_json = [](const Case &c) { return oo::to_json(c); };
        P.from_json = [](const J &j) { return oo::from_json(j); };
        P.run = run;
        return pbt::main_(argc, argv, P);
}
