// C04 - AES key expansion equals FIPS-197 (enc schedule + equivalent-inverse-cipher dec schedule);
//       AES-CBC equals SP 800-38A for all key sizes and families; dec inverts enc.
#include "../common/aes_engine.hpp"
#include "../common/periodic.hpp"

using namespace ae::cbc;
static std::vector<Ent> g_ents;
static void discover_ents() { g_ents = ae::cbc::discover(); }

struct Case {
        std::string ent;
        uint64_t seed = 1, nblocks = 1;
        int inplace = 0, pl_in = 0, pl_out = 0, pl_key = 0;
        uint32_t sh_in = 0, sh_out = 0;
        int giant = 0; // 1: CBC call of 2^32 bytes or more (periodic read-only input, aliasing sink as output)
};
static J to_json(const Case &c)
{
        J j = J::obj();
        j.set("ent", c.ent).set("seed", (unsigned long long) c.seed).set("nblocks", (unsigned long long) c.nblocks).set("inplace", c.inplace);
        j.set("pl_in", c.pl_in).set("pl_out", c.pl_out).set("pl_key", c.pl_key).set("sh_in", c.sh_in).set("sh_out", c.sh_out).set("giant", c.giant);
        return j;
}
static Case from_json(const J &j)
{
        Case c;
        c.ent = j.at("ent").s;
        c.seed = j.unum("seed", 1); c.nblocks = j.unum("nblocks", 1); c.inplace = j.num("inplace", 0);
        c.pl_in = j.num("pl_in", 0); c.pl_out = j.num("pl_out", 0); c.pl_key = j.num("pl_key", 0);
        c.sh_in = j.unum("sh_in", 0); c.sh_out = j.unum("sh_out", 0); c.giant = j.num("giant", 0);
        return c;
}

static bool run(const Case &c, pbt::Ctx &ctx)
{
        const Ent *e = nullptr;
        for (auto &x : g_ents)
                if (x.label() == c.ent) e = &x;
        if (!e || !e->runnable) { ctx.label("absent-entry"); return true; }
        const std::string site = c.ent;
        auto failx = [&](const std::string &k, const std::string &m) { return ctx.fail(k + "|" + site, site + ": " + m); };
        std::vector<uint8_t> key = pbt::expandv(c.seed, e->bits / 8);
        ref::Aes ra(key.data(), e->bits);
        std::vector<uint8_t> es = ra.enc_schedule(), ds = ra.dec_schedule();
        guard::Arena A;
        guard::FaultInfo fi;
        int rc = 0;
        ctx.label("ent=" + c.ent);

        if (e->op == OP_KEYEXP) {
                uint8_t *kb = A.alloc("key", key.size(), 1, (guard::Place) c.pl_key, -1, c.sh_in);
                memcpy(kb, key.data(), key.size());
                A.set_readonly(kb);
                uint8_t *enc = A.alloc("exp_key_enc", es.size(), 1, (guard::Place) c.pl_in, 0x3c, c.sh_out);
                uint8_t *dec = A.alloc("exp_key_dec", ds.size(), 1, (guard::Place) c.pl_out, 0xc3, c.sh_out);
                bool ok = guard::guarded_call(fi, [&] {
                        if (e->api) rc = ((ae::keyexp_ifn) e->fn)(kb, enc, dec);
                        else ((ae::keyexp_fn) e->fn)(kb, enc, dec);
                });
                if (!ok) {
                        A.describe(fi);
                        return !failx("fault", "fault: " + fi.where);
                }
                if (rc) return !failx("rc", "returned " + std::to_string(rc));
                std::string cn = A.check_canaries();
                if (!cn.empty() && failx("canary", cn)) return false;
                if (memcmp(enc, es.data(), es.size())) {
                        size_t k = 0;
                        while (enc[k] == es[k]) k++;
                        if (failx("enc-schedule", "encryption round keys differ from FIPS-197 at round " + std::to_string(k / 16))) return false;
                }
                if (memcmp(dec, ds.data(), ds.size())) {
                        size_t k = 0;
                        while (dec[k] == ds[k]) k++;
                        if (failx("dec-schedule", "decryption schedule differs (reversed + InvMixColumns on inner rounds) at slot " + std::to_string(k / 16))) return false;
                }
                ctx.nontrivial = true;
                ctx.nt_key = c.ent + "|" + std::to_string(c.seed);
                return true;
        }
        if (c.giant) {
                // decryption is local (P_j = D(C_j) ^ C_{j-1}): the last MiB of a > 4 GiB call is checked against the reference,
                // which needs only the last MiB (+ one block) of the input
                if (e->op == OP_KEYEXP || c.nblocks < (1ull << 20)) { ctx.label("shrink artefact"); return true; }
                const bool enc = e->op == OP_ENC;
                const std::vector<uint8_t> &gs = enc ? es : ds;
                uint64_t len = 16 * c.nblocks;
                if (len + 4096 > periodic::SPAN) return true;
                std::vector<uint8_t> iv = pbt::expandv(c.seed + 1, 16);
                uint8_t *keys = A.alloc("keys", gs.size(), 16, guard::END);
                memcpy(keys, gs.data(), gs.size());
                A.set_readonly(keys);
                uint8_t *ivb = A.alloc("iv", 16, 16, guard::END);
                memcpy(ivb, iv.data(), 16);
                A.set_readonly(ivb);
                uint8_t *in = periodic::stream(), *out = periodic::sink();
                memset(out, 0xEE, periodic::PERIOD); // (one write reaches every alias)
                bool ok = guard::guarded_call(fi, [&] {
                        if (e->api) rc = ((cbc_ifn) e->fn)(in, ivb, keys, out, len);
                        else if (enc) ((cbc_enc_fn) e->fn)(in, ivb, keys, out, len);
                        else ((cbc_dec_fn) e->fn)(in, ivb, keys, out, len);
                });
                if (!ok) {
                        A.describe(fi);
                        return !failx("fault", "fault (blocks " + std::to_string(c.nblocks) + "): " + fi.where);
                }
                if (rc) return !failx("rc", "valid call returned " + std::to_string(rc));
                uint64_t first = len - periodic::PERIOD;
                for (uint64_t o = first; o < len; o += 16) {
                        uint8_t d[16];
                        bool bad;
                        if (enc) {
                                // encryption chains through the whole message; what the retained last MiB of ciphertext can be held to is the
                                // chaining relation itself: D(C_j) ^ C_{j-1} = P_j for every block j of it (C_{j-1} of the first one is lost)
                                if (o == first) continue;
                                ra.decrypt(out + o, d);
                                for (int k = 0; k < 16; k++) d[k] ^= out[o - 16 + k];
                                bad = memcmp(d, in + o, 16) != 0;
                        } else {
                                ra.decrypt(in + o, d);
                                const uint8_t *prev = in + o - 16;
                                for (int k = 0; k < 16; k++) d[k] ^= prev[k];
                                bad = memcmp(d, out + o, 16) != 0;
                        }
                        if (bad) {
                                if (failx("output-giant", "output differs from SP 800-38A reference in block " + std::to_string(o / 16) + " of " + std::to_string(c.nblocks) +
                                                                  " (a call of more than 2^32 bytes)"))
                                        return false;
                                break;
                        }
                }
                ctx.label(enc ? "giant encrypt (>= 2^32 bytes; chaining relation over the last MiB)" : "giant decrypt (> 2^32 bytes)");
                ctx.nontrivial = true;
                return true;
        }
        uint64_t len = 16 * c.nblocks;
        std::vector<uint8_t> iv = pbt::expandv(c.seed + 1, 16), pt = pbt::expandv(c.seed + 2, len), ct(len);
        ref::cbc_encrypt(ra, iv.data(), pt.data(), ct.data(), len);
        const std::vector<uint8_t> &input = e->op == OP_DEC ? ct : pt;
        const std::vector<uint8_t> &expect = e->op == OP_DEC ? pt : ct;
        const std::vector<uint8_t> &sched = e->op == OP_DEC ? ds : es;
        uint8_t *keys = A.alloc("keys", sched.size(), 16, (guard::Place) c.pl_key);
        memcpy(keys, sched.data(), sched.size());
        A.set_readonly(keys);
        uint8_t *ivb = A.alloc("iv", 16, 16, (guard::Place) c.pl_key);
        memcpy(ivb, iv.data(), 16);
        A.set_readonly(ivb);
        uint8_t *in, *out;
        if (c.inplace) {
                in = out = A.alloc("inout", len, 1, (guard::Place) c.pl_out, -1, c.sh_out);
                memcpy(in, input.data(), len);
        } else {
                in = A.alloc("in", len, 1, (guard::Place) c.pl_in, -1, c.sh_in);
                memcpy(in, input.data(), len);
                A.set_readonly(in);
                out = A.alloc("out", len, 1, (guard::Place) c.pl_out, 0x6d, c.sh_out);
        }
        bool ok = guard::guarded_call(fi, [&] {
                if (e->api) rc = ((cbc_ifn) e->fn)(in, ivb, keys, out, len);
                else if (e->op == OP_ENC) ((cbc_enc_fn) e->fn)(in, ivb, keys, out, len);
                else ((cbc_dec_fn) e->fn)(in, ivb, keys, out, len);
        });
        if (!ok) {
                A.describe(fi);
                return !failx("fault", "fault (blocks " + std::to_string(c.nblocks) + "): " + fi.where);
        }
        if (rc) return !failx("rc", "valid call returned " + std::to_string(rc));
        std::string cn = A.check_canaries();
        if (!cn.empty() && failx("canary", cn)) return false;
        if (memcmp(out, expect.data(), len)) {
                size_t k = 0;
                while (out[k] == expect[k]) k++;
                if (failx("output", "output differs from SP 800-38A reference in block " + std::to_string(k / 16) + " of " + std::to_string(c.nblocks) +
                                            (c.inplace ? " (in place)" : "")))
                        return false;
        }
        ctx.label(c.inplace ? "inplace" : "outofplace");
        ctx.nontrivial = (c.nblocks % 8 != 0) || (e->fam == "vaes_avx512" && c.nblocks % 16 != 0) || (e->op == OP_DEC && c.inplace && c.nblocks > 8);
        return true;
}

int main(int argc, char **argv)
{
        pbt::Prop<Case> P;
        P.id = "C04";
        P.setup = [](pbt::Ctx &ctx) {
                discover_ents();
                for (auto &e : g_ents)
                        if (!e.runnable) ctx.notes.push_back("entry skipped (host cannot execute it): " + e.label());
                if (g_ents.empty()) { fprintf(stderr, "HARNESS-ERROR: no AES entry found\n"); exit(3); }
        };
        P.gen = [](pbt::Ctx &ctx) {
                using namespace pbt;
                Case c;
                static long case_no = 0;
                if (case_no < ctx.optnum("giants", 0)) {
                        std::vector<size_t> dec;
                        for (size_t i = 0; i < g_ents.size(); i++)
                                if (g_ents[i].runnable && g_ents[i].op != OP_KEYEXP) dec.push_back(i);
                        if (!dec.empty()) {
                                c.ent = g_ents[dec[(size_t) (ctx.optnum("worker", 0) + case_no * ctx.optnum("workers", 1)) % dec.size()]].label();
                                const bool exact = case_no < 2; // the first two rounds reach every entry once: exactly 2^32 bytes there
                                case_no++;
                                c.giant = 1;
                                c.seed = rng64(1, UINT64_MAX - 8);
                                c.nblocks = (1ull << 28) + (exact ? 0 : coin(1, 2) ? pick<uint64_t>({ 1, 7, 8, 15, 16, 17 }) : rng<uint64_t>(1, 70000));
                                return c;
                        }
                }
                std::vector<size_t> idx;
                for (size_t i = 0; i < g_ents.size(); i++)
                        if (g_ents[i].runnable) idx.push_back(i);
                c.ent = g_ents[idx[rng<size_t>(0, idx.size() - 1)]].label();
                c.seed = rng64(1, UINT64_MAX - 8);
                switch (weighted({ 60, 8, 4, 10 })) {
                case 0: c.nblocks = rng<uint64_t>(1, 80); break;
                case 1: c.nblocks = rng<uint64_t>(255, 257); break;
                case 2: c.nblocks = 4096; break;
                default: c.nblocks = rng<uint64_t>(81, 1200); break;
                }
                c.inplace = coin(1, 2);
                c.pl_in = weighted({ 2, 1 }); c.pl_out = weighted({ 2, 1 }); c.pl_key = weighted({ 2, 1 });
                c.sh_in = coin(1, 3) ? rng<uint32_t>(0, 63) : 0;
                c.sh_out = coin(1, 3) ? rng<uint32_t>(0, 63) : 0;
                return c;
        };
        P.to_json = to_json;
        P.from_json = from_json;
        P.run = run;
        return pbt::main_(argc, argv, P);
}
