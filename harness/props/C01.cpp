// C01 - multi-buffer digests equal the standard hash for every submission history.
#include "../common/hash_engine.hpp"

static std::vector<isal::HashFamily> g_fams;

int main(int argc, char **argv)
{
        pbt::Prop<he::Case> P;
        P.id = "C01";
        P.setup = [](pbt::Ctx &ctx) {
                std::string only = ctx.optstr("fam", "");
                for (auto &f : isal::hash_families()) {
                        if (!only.empty() && f.label().find(only) == std::string::npos) continue;
                        if (!f.runnable) { ctx.notes.push_back("family skipped (host cannot execute it): " + f.label()); continue; }
                        g_fams.push_back(f);
                }
                if (g_fams.empty()) { fprintf(stderr, "HARNESS-ERROR: no hash family available\n"); exit(3); }
        };
        P.gen = [](pbt::Ctx &ctx) {
                const isal::HashFamily &f = g_fams[pbt::rng<size_t>(0, g_fams.size() - 1)];
                he::GenOpts go;
                go.allow_bad = false;
                go.big_max = (uint32_t) ctx.optnum("bigmax", 256 * 1024);
                return he::gen_case(f, go);
        };
        P.to_json = [](const he::Case &c) { return he::to_json(c); };
        P.from_json = [](const J &j) { return he::from_json(j); };
        P.run = [](const he::Case &c, pbt::Ctx &ctx) {
                const isal::HashFamily *f = nullptr;
                for (auto &x : g_fams)
                        if (x.label() == c.fam) f = &x;
                if (!f) { ctx.label("absent-family"); return true; }
                he::ExecStats st;
                bool ok = he::execute(c, *f, ctx, st);
                ctx.label("fam=" + c.fam);
                ctx.label("max_held=" + std::to_string(st.max_held > 16 ? 17 : st.max_held));
                ctx.label("completed_msgs", st.completed);
                ctx.label("calls", st.calls);
                ctx.nontrivial = st.multi_inflight && st.odd_cut_msg;
                return ok;
        };
        return pbt::main_(argc, argv, P);
}
