// C16 - with SAFE_PARAM every isal_ entry point refuses a missing required pointer or an out-of-domain scalar with its
//       documented error code, without reading through any argument and without changing any output; arguments inside
//       the documented domain give 0; each deprecated legacy entry point computes the same result as its isal_ counterpart.
#include "../common/entries.hpp"

enum Mode { M_VALID_DIFF = 0, M_NULLS = 1, M_SCALAR = 2 };
struct Case {
        std::string entry;
        int mode = 0;
        uint64_t seed = 1, len = 64, aad_len = 16;
        int tag_len = 16, flags = 3;
        uint32_t null_mask = 0; // bit i = i-th pointer argument (in argument order) is passed as NULL
        int scalar_pick = 0;    // index into the entry group's boundary list
};
static J to_json(const Case &c)
{
        J j = J::obj();
        j.set("entry", c.entry).set("mode", c.mode).set("seed", (unsigned long long) c.seed).set("len", (unsigned long long) c.len).set("aad_len", (unsigned long long) c.aad_len);
        j.set("tag_len", c.tag_len).set("flags", c.flags).set("null_mask", c.null_mask).set("scalar_pick", c.scalar_pick);
        return j;
}
static Case from_json(const J &j)
{
        Case c;
        c.entry = j.at("entry").s;
        c.mode = j.num("mode", 0); c.seed = j.unum("seed", 1); c.len = j.unum("len", 64); c.aad_len = j.unum("aad_len", 16); c.tag_len = j.num("tag_len", 16);
        c.flags = j.num("flags", 3); c.null_mask = j.unum("null_mask", 0); c.scalar_pick = j.num("scalar_pick", 0);
        return c;
}
static std::vector<ent::Entry> g_entries;

// boundary values of the scalar arguments per group: {argument name, value, expected error (0 = inside the domain)}
struct Boundary { const char *arg; uint64_t value; int err; };
static std::vector<Boundary> boundaries(const ent::Entry &e)
{
        std::vector<Boundary> b;
        const unsigned long long gmax = ISAL_GCM_MAX_LEN;
        if (e.group == "cbc") {
                for (uint64_t v : { 0ull, 16ull, 32ull, 4096ull }) b.push_back({ "len_bytes", v, 0 });
                for (uint64_t v : { 1ull, 15ull, 17ull, 31ull, (1ull << 32) + 8, ~0ull }) b.push_back({ "len_bytes", v, ISAL_CRYPTO_ERR_CIPH_LEN });
        } else if (e.group == "xts") {
                for (uint64_t v : { 16ull, 17ull, 31ull, 32ull, 1ull << 24 }) b.push_back({ "len_bytes", v, 0 });
                for (uint64_t v : { 0ull, 1ull, 15ull, (1ull << 24) + 1, 1ull << 32, ~0ull }) b.push_back({ "len_bytes", v, ISAL_CRYPTO_ERR_CIPH_LEN });
        } else if (e.group == "gcm") {
                if (e.name.find("_pre_") == std::string::npos && e.name.find("_init_") == std::string::npos && e.name.find("finalize") == std::string::npos) {
                        for (uint64_t v : { 0ull, 1ull, 15ull, 16ull }) b.push_back({ "len", v, 0 });
                        for (uint64_t v : { gmax + 1, gmax + 17, 1ull << 40, ~0ull }) b.push_back({ "len", v, ISAL_CRYPTO_ERR_CIPH_LEN });
                }
                if (e.name.find("finalize") != std::string::npos || (e.name.find("update") == std::string::npos && e.name.find("_pre_") == std::string::npos &&
                                                                     e.name.find("_init_") == std::string::npos)) {
                        for (uint64_t v : { 8ull, 12ull, 16ull }) b.push_back({ "auth_tag_len", v, 0 });
                        for (uint64_t v : { 0ull, 4ull, 15ull, 17ull, 32ull, ~0ull }) b.push_back({ "auth_tag_len", v, ISAL_CRYPTO_ERR_AUTH_TAG_LEN });
                }
        } else if (e.name == "isal_rolling_hash2_init") {
                for (uint64_t v : { 1ull, 32ull, 48ull }) b.push_back({ "w", v, 0 });
                for (uint64_t v : { 49ull, 64ull, 0xffffffffull }) b.push_back({ "w", v, ISAL_CRYPTO_ERR_WINDOW_SIZE });
        }
        return b;
}

static bool run(const Case &c, pbt::Ctx &ctx)
{
        const ent::Entry *e = nullptr;
        for (auto &x : g_entries)
                if (x.name == c.entry) e = &x;
        if (!e) { ctx.label("absent-entry"); return true; }
        const std::string site = c.entry;
        auto failx = [&](const std::string &k, const std::string &m) { return ctx.fail(k + "|" + site, site + ": " + m); };
        guard::Arena A;
        guard::FaultInfo fi;
        ent::Params p;
        p.seed = c.seed; p.len = c.len; p.aad_len = c.aad_len; p.tag_len = c.tag_len; p.flags = c.flags;
        p.w = 1 + c.seed % 48; p.mask = 0x3f; p.trigger = (uint32_t) (c.seed >> 9);
        if (c.entry.find("_nt") != std::string::npos) p.len = p.len / 64 * 64;
        ent::Call call;
        if (!e->build(A, p, call)) { ctx.label("absent-entry"); return true; }
        ctx.label("mode=" + std::to_string(c.mode));
        ctx.label("group=" + e->group);

        if (c.mode == M_VALID_DIFF) {
                for (int i = 0; i < call.nargs; i++)
                        if (call.desc[i].kind == ent::IN) A.set_readonly(call.desc[i].ptr);
                uint64_t ret = 0;
                bool ok = guard::guarded_call(fi, [&] { ret = ent::invoke(call, call.argv); });
                if (!ok) {
                        A.describe(fi);
                        return !failx("valid-fault", "fault on arguments inside the documented domain (len " + std::to_string(p.len) + "): " + fi.where);
                }
                if (call.returns_int && (int) ret != 0 && e->name != "isal_self_tests")
                        if (failx("valid-rc", "arguments inside the documented domain returned " + std::to_string((int) ret))) return false;
                std::string cn = A.check_canaries();
                if (!cn.empty() && failx("canary", cn)) return false;
                if (!e->legacy.empty() && isal::sym(e->legacy)) {
                        std::vector<uint8_t> r1 = call.result(ret);
                        guard::Arena A2;
                        ent::Params p2 = p;
                        p2.legacy = true;
                        ent::Call c2;
                        if (e->build(A2, p2, c2)) {
                                uint64_t ret2 = 0;
                                ok = guard::guarded_call(fi, [&] { ret2 = ent::invoke(c2, c2.argv); });
                                if (!ok) {
                                        A2.describe(fi);
                                        return !failx("legacy-fault", "fault in the legacy entry point " + e->legacy + ": " + fi.where);
                                }
                                std::vector<uint8_t> r2 = c2.result(ret2);
                                if (r1 != r2 && failx("legacy-differs", "legacy entry point " + e->legacy + " computed a different result than " + e->name)) return false;
                                ctx.label("legacy-differential");
                                ctx.nontrivial = true;
                        }
                }
                return true;
        }

        // ---- invalid-argument modes
        std::vector<int> ptr_idx;
        for (int i = 0; i < call.nargs; i++)
                if (call.desc[i].kind != ent::SCALAR) ptr_idx.push_back(i);
        uint64_t argv[10];
        memcpy(argv, call.argv, sizeof argv);
        std::vector<int> accept; // acceptable non-zero codes
        int ninvalid = 0;
        bool boundary_valid = false;
        std::string what;
        if (c.mode == M_SCALAR) {
                std::vector<Boundary> b = boundaries(*e);
                if (b.empty()) { ctx.label("no-scalar-domain"); return true; }
                const Boundary &bd = b[c.scalar_pick % b.size()];
                int ai = -1;
                for (int i = 0; i < call.nargs; i++)
                        if (!strcmp(call.desc[i].name, bd.arg)) ai = i;
                if (ai < 0) { ctx.label("no-such-scalar"); return true; }
                argv[ai] = bd.value;
                what = std::string(bd.arg) + "=" + std::to_string(bd.value);
                if (bd.err) { accept.push_back(bd.err); ninvalid++; }
                else boundary_valid = true;
        }
        if (boundary_valid) {
                // a boundary value inside the domain: execute only where the buffers can exist with that size -> rebuild the call with it
                uint64_t v = 0;
                std::vector<Boundary> b = boundaries(*e);
                const Boundary &bd = b[c.scalar_pick % b.size()];
                v = bd.value;
                ent::Params pv = p;
                if (!strcmp(bd.arg, "len_bytes") || !strcmp(bd.arg, "len")) pv.len = v;
                else if (!strcmp(bd.arg, "auth_tag_len")) pv.tag_len = (int) v;
                else if (!strcmp(bd.arg, "w")) pv.w = (uint32_t) v;
                guard::Arena A3;
                ent::Call c3;
                if (!e->build(A3, pv, c3)) return true;
                // the builders round some lengths (cbc to 16, xts to >= 16): force the exact boundary value
                for (int i = 0; i < c3.nargs; i++)
                        if (!strcmp(c3.desc[i].name, bd.arg)) c3.argv[i] = v;
                for (int i = 0; i < c3.nargs; i++)
                        if (c3.desc[i].kind == ent::IN) A3.set_readonly(c3.desc[i].ptr);
                uint64_t ret = 0;
                bool ok = guard::guarded_call(fi, [&] { ret = ent::invoke(c3, c3.argv); });
                if (!ok) {
                        A3.describe(fi);
                        return !failx("valid-fault", "fault on a boundary value inside the documented domain (" + what + "): " + fi.where);
                }
                if ((int) ret != 0 && failx("valid-rc", "boundary value inside the documented domain (" + what + ") returned " + std::to_string((int) ret))) return false;
                std::string cn = A3.check_canaries();
                if (!cn.empty() && failx("canary", cn + " (" + what + ")")) return false;
                ctx.nontrivial = true;
                ctx.label("boundary-valid");
                return true;
        }
        if (c.mode == M_NULLS || (c.null_mask && ninvalid)) {
                for (size_t k = 0; k < ptr_idx.size(); k++) {
                        if (!(c.null_mask & (1u << k))) continue;
                        const ent::ArgDesc &d = call.desc[ptr_idx[k]];
                        if (d.null_unspecified || !d.null_err) continue; // documentation leaves it open: not generated
                        argv[ptr_idx[k]] = 0;
                        accept.push_back(d.null_err);
                        ninvalid++;
                        what += std::string(what.empty() ? "" : ",") + d.name + "=NULL";
                }
        }
        if (!ninvalid) { ctx.label("nothing-invalid"); return true; }
        // snapshot outputs, then make every remaining pointer argument inaccessible
        std::vector<std::vector<uint8_t>> snap;
        for (int i = 0; i < call.nargs; i++)
                if (call.desc[i].kind == ent::OUT || call.desc[i].kind == ent::OBJ) snap.push_back(ent::bytes_of(call.desc[i].ptr, call.desc[i].size));
        for (int i : ptr_idx) A.set_noaccess(call.desc[i].ptr);
        uint64_t ret = 0;
        bool ok = guard::guarded_call(fi, [&] { ret = ent::invoke(call, argv); });
        for (int i : ptr_idx) A.set_rw(call.desc[i].ptr);
        if (!ok) {
                A.describe(fi);
                return !failx("invalid-deref", "argument dereferenced although the call is invalid (" + what + "): " + fi.where);
        }
        int rc = (int) ret;
        bool okrc = false;
        for (int a : accept) okrc |= (a == rc);
        if (!okrc) {
                std::string acc;
                for (int a : accept) acc += std::to_string(a) + " ";
                if (failx("invalid-rc", "invalid call (" + what + ") returned " + std::to_string(rc) + ", documented: " + acc)) return false;
        }
        int k = 0;
        for (int i = 0; i < call.nargs; i++) {
                const ent::ArgDesc &d = call.desc[i];
                if (d.kind != ent::OUT && d.kind != ent::OBJ) continue;
                if (memcmp(snap[k].data(), d.ptr, d.size) && failx("invalid-output", "output '" + std::string(d.name) + "' changed by a refused call (" + what + ")")) return false;
                k++;
        }
        ctx.nontrivial = ninvalid >= 2 || c.mode == M_SCALAR;
        ctx.label(ninvalid >= 2 ? "invalid>=2" : "invalid=1");
        return true;
}

int main(int argc, char **argv)
{
        pbt::Prop<Case> P;
        P.id = "C16";
        P.setup = [](pbt::Ctx &ctx) {
                g_entries = ent::all_entries();
                std::set<std::string> known;
                for (auto &e : g_entries) known.insert(e.name);
                for (auto &s : ent::archive_isal_symbols())
                        if (!known.count(s)) ctx.notes.push_back("UNCOVERED: isal_ entry point not in the catalog (not judged): " + s);
                if (isal_self_tests() != ISAL_CRYPTO_ERR_FIPS_DISABLED) { fprintf(stderr, "HARNESS-ERROR: C16 needs the default (non-FIPS) variant\n"); exit(3); }
        };
        P.gen = [](pbt::Ctx &ctx) {
                using namespace pbt;
                Case c;
                const ent::Entry &e = g_entries[rng<size_t>(0, g_entries.size() - 1)];
                c.entry = e.name;
                c.mode = weighted({ 3, 4, 3 });
                c.seed = rng64(1, UINT64_MAX - 8);
                c.len = weighted({ 1, 6, 3 }) == 0 ? 0 : (coin() ? 16 * rng<uint64_t>(1, 40) : rng<uint64_t>(1, 1500));
                if (e.group == "cbc") c.len = 16 * rng<uint64_t>(0, 40);
                if (e.group == "xts") c.len = 16 * rng<uint64_t>(1, 40) + rng<uint64_t>(0, 15);
                c.aad_len = coin(1, 4) ? 0 : rng<uint64_t>(1, 64);
                c.tag_len = pick<int>({ 16, 12, 8 });
                c.flags = pick<int>({ ISAL_HASH_ENTIRE, ISAL_HASH_FIRST });
                c.null_mask = c.mode == M_NULLS ? rng<uint32_t>(1, 255) : (coin(1, 3) ? rng<uint32_t>(0, 255) : 0);
                c.scalar_pick = rng<int>(0, 15);
                (void) ctx;
                return c;
        };
        P.to_json = to_json;
        P.from_json = from_json;
        P.run = run;
        return pbt::main_(argc, argv, P);
}
