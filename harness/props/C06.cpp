// C06 - the hash manager never loses, duplicates or strands a job; flush always drains.
// Histories include rejected submits and flushes at any point; judged by the conservation model in hash_engine.hpp.
#include "../common/hash_engine.hpp"
#include "../common/periodic.hpp"
static std::vector<isal::HashFamily> g_fams;

// A long-lived manager: one context, flush-driven, `volume` segments of almost 2^32 bytes each (the periodic read-only mapping), so that
// 16 GiB and more pass through the manager while its other lanes stay idle.  Conservation only: every submit/flush pair hands the
// context back exactly once, with no error, in the expected state; the manager is empty afterwards.
static bool run_volume(const he::Case &c, const isal::HashFamily &f, pbt::Ctx &ctx)
{
        using namespace isal;
        const AlgoDesc &D = algo_desc[f.algo];
        auto failx = [&](const std::string &k, const std::string &m) { return ctx.fail(k + "|" + c.fam, c.fam + ": " + m); };
        guard::Arena A;
        guard::FaultInfo fi;
        uint8_t *mgr = A.alloc("mgr", D.mgr_size, 64, guard::END, c.prefill);
        void *cx = A.alloc("ctx", D.ctx_size, 64, guard::END, 0x3c);
        ctx_init(f.algo, cx);
        int rc = 0;
        bool okc = guard::guarded_call(fi, [&] {
                if (f.is_isal()) rc = f.i_init(mgr);
                else f.init(mgr);
        });
        if (!okc) return !failx("fault", "fault in init");
        uint64_t done = 0;
        for (int sgm = 0; sgm < c.volume; sgm++) {
                uint32_t len = 0xffffffffu - (uint32_t) ((c.seed >> (sgm % 8)) % 4096);
                int flags = (sgm == 0 ? ISAL_HASH_FIRST : 0) | (sgm + 1 == c.volume ? ISAL_HASH_LAST : 0);
                void *r = nullptr;
                okc = guard::guarded_call(fi, [&] {
                        if (f.is_isal()) rc = f.i_submit(mgr, cx, &r, periodic::stream(), len, flags);
                        else r = f.submit(mgr, cx, periodic::stream(), len, flags);
                });
                if (!okc) { A.describe(fi); return !failx("fault-submit", "fault in submit of segment " + std::to_string(sgm) + " after " + std::to_string(done >> 30) + " GiB through this manager: " + fi.where); }
                if (rc && failx("rc", "valid submit returned " + std::to_string(rc))) return false;
                int flushes = 0;
                while (!r && flushes++ < 4) {
                        okc = guard::guarded_call(fi, [&] {
                                if (f.is_isal()) rc = f.i_flush(mgr, &r);
                                else r = f.flush(mgr);
                        });
                        if (!okc) { A.describe(fi); return !failx("fault-flush", "fault in flush of segment " + std::to_string(sgm) + " after " + std::to_string(done >> 30) + " GiB through this manager: " + fi.where); }
                }
                done += len;
                if (r != cx)
                        if (failx("stranded", std::string(r ? "an unknown context" : "nothing") + " was handed back for segment " + std::to_string(sgm) + " (" + std::to_string(done >> 30) + " GiB through this manager)"))
                                return false;
                if (ctx_error(f.algo, cx) != ISAL_HASH_CTX_ERROR_NONE && failx("error", "error " + std::to_string(ctx_error(f.algo, cx)) + " on a valid segment")) return false;
                uint32_t want = sgm + 1 == c.volume ? ISAL_HASH_CTX_STS_COMPLETE : ISAL_HASH_CTX_STS_IDLE;
                if (ctx_status(f.algo, cx) != want && failx("status", "status " + std::to_string(ctx_status(f.algo, cx)) + " after segment " + std::to_string(sgm))) return false;
        }
        void *r = (void *) 1;
        okc = guard::guarded_call(fi, [&] {
                if (f.is_isal()) rc = f.i_flush(mgr, &r);
                else r = f.flush(mgr);
        });
        if (!okc) return !failx("fault-flush", "fault in the final flush");
        if (r && failx("not-empty", "flush of the emptied manager handed back a context")) return false;
        ctx.label("volume (GiB through one manager)", done >> 30);
        ctx.label("fam=" + c.fam);
        ctx.nontrivial = true;
        return true;
}

int main(int argc, char **argv)
{
        pbt::Prop<he::Case> P;
        P.id = "C06";
        P.setup = [](pbt::Ctx &ctx) {
                std::string only = ctx.optstr("fam", "");
                for (auto &f : isal::hash_families()) {
                        if (!only.empty() && f.label().find(only) == std::string::npos) continue;
                        if (!f.runnable) { ctx.notes.push_back("family skipped (host cannot execute it): " + f.label()); continue; }
                        g_fams.push_back(f);
                }
                if (g_fams.empty()) { fprintf(stderr, "HARNESS-ERROR: no hash family available\n"); exit(3); }
        };
        P.gen = [](pbt::Ctx &ctx) {
                static long case_no = 0;
                if (case_no < ctx.optnum("volumes", 0)) {
                        he::Case v;
                        v.fam = g_fams[(size_t) (ctx.optnum("worker", 0) + case_no * ctx.optnum("workers", 1)) % g_fams.size()].label();
                        case_no++;
                        v.volume = 5; // 5 x ~4 GiB: more than 2^28 blocks of 64 bytes
                        v.seed = pbt::rng64(1, UINT64_MAX - 8);
                        v.prefill = pbt::rng<int>(0, 255);
                        return v;
                }
                const isal::HashFamily &f = g_fams[pbt::rng<size_t>(0, g_fams.size() - 1)];
                he::GenOpts go;
                go.allow_bad = true;
                go.bad_pct = 8;
                go.big_max = (uint32_t) ctx.optnum("bigmax", 64 * 1024);
                go.max_cmds = 80;
                return he::gen_case(f, go);
        };
        P.to_json = [](const he::Case &c) { return he::to_json(c); };
        P.from_json = [](const J &j) { return he::from_json(j); };
        P.run = [](const he::Case &c, pbt::Ctx &ctx) {
                const isal::HashFamily *f = nullptr;
                for (auto &x : g_fams)
                        if (x.label() == c.fam) f = &x;
                if (!f) { ctx.label("absent-family"); return true; }
                if (c.volume) return run_volume(c, *f, ctx);
                he::ExecStats st;
                bool ok = he::execute(c, *f, ctx, st);
                ctx.label("fam=" + c.fam);
                ctx.label("max_held=" + std::to_string(st.max_held > 16 ? 17 : st.max_held));
                if (st.flush_with_2) ctx.label("flush-with>=2-held");
                if (st.returned_other) ctx.label("submit-returned-other-ctx");
                ctx.label("rejected", st.rejected);
                ctx.nontrivial = st.flush_with_2 || st.returned_other;
                return ok;
        };
        return pbt::main_(argc, argv, P);
}
