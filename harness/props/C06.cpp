// C06 - the hash manager never loses, duplicates or strands a job; flush always drains.
// Histories include rejected submits and flushes at any point; judged by the conservation model in hash_engine.hpp.
#include "../common/hash_engine.hpp"
static std::vector<isal::HashFamily> g_fams;
int main(int argc, char **argv)
{
        pbt::Prop<he::Case> P;
        P.id = "C06";
        P.setup = [](pbt::Ctx &ctx) {
                std::string only = ctx.optstr("fam", "");
                for (auto &f : isal::hash_families()) {
                        if (!only.empty() && f.label().find(only) == std::string::npos) continue;
                        if (!f.runnable) { ctx.notes.push_back("family skipped (host cannot execute it): " + f.label()); continue; }
                        g_fams.push_back(f);
                }
                if (g_fams.empty()) { fprintf(stderr, "HARNESS-ERROR: no hash family available\n"); exit(3); }
        };
        P.gen = [](pbt::Ctx &ctx) {
                const isal::HashFamily &f = g_fams[pbt::rng<size_t>(0, g_fams.size() - 1)];
                he::GenOpts go;
                go.allow_bad = true;
                go.bad_pct = 8;
                go.big_max = (uint32_t) ctx.optnum("bigmax", 64 * 1024);
                go.max_cmds = 80;
                return he::gen_case(f, go);
        };
        P.to_json = [](const he::Case &c) { return he::to_json(c); };
        P.from_json = [](const J &j) { return he::from_json(j); };
        P.run = [](const he::Case &c, pbt::Ctx &ctx) {
                const isal::HashFamily *f = nullptr;
                for (auto &x : g_fams)
                        if (x.label() == c.fam) f = &x;
                if (!f) { ctx.label("absent-family"); return true; }
                he::ExecStats st;
                bool ok = he::execute(c, *f, ctx, st);
                ctx.label("fam=" + c.fam);
                ctx.label("max_held=" + std::to_string(st.max_held > 16 ? 17 : st.max_held));
                if (st.flush_with_2) ctx.label("flush-with>=2-held");
                if (st.returned_other) ctx.label("submit-returned-other-ctx");
                ctx.label("rejected", st.rejected);
                ctx.nontrivial = st.flush_with_2 || st.returned_other;
                return ok;
        };
        return pbt::main_(argc, argv, P);
}
