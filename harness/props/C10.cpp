// C10 - mh_sha1_murmur3_x64_128 returns both digests as if computed separately.
#include "../common/mh_engine.hpp"
static std::vector<mh::Fam> g_fams;
static long g_case_no = 0;
int main(int argc, char **argv)
{
        pbt::Prop<mh::Case> P;
        P.id = "C10";
        P.setup = [](pbt::Ctx &ctx) {
                for (auto &f : mh::families({ mh::MH_MURMUR })) {
                        if (!f.runnable) { ctx.notes.push_back("family skipped (host cannot execute it): " + f.label()); continue; }
                        g_fams.push_back(f);
                }
                if (g_fams.empty()) { fprintf(stderr, "HARNESS-ERROR: no murmur family available\n"); exit(3); }
        };
        P.gen = [](pbt::Ctx &ctx) { return mh::gen_case(g_fams[pbt::rng<size_t>(0, g_fams.size() - 1)], (uint64_t) ctx.optnum("bigmax", 300000), ctx.optnum("giant_ppm", 0),
                                                           // the first `giants` cases of every worker are giant streams: one just above 2^29 bytes, the following ones just below 2^32
                                                           g_case_no++ < ctx.optnum("giants", 0) ? (g_case_no == 1 ? 1 : 2) : 0); };
        P.to_json = [](const mh::Case &c) { return mh::to_json(c); };
        P.from_json = [](const J &j) { return mh::from_json(j); };
        P.run = [](const mh::Case &c, pbt::Ctx &ctx) {
                const mh::Fam *f = nullptr;
                for (auto &x : g_fams)
                        if (x.label() == c.fam) f = &x;
                if (!f) { ctx.label("absent-family"); return true; }
                mh::Stats st;
                bool ok = mh::execute(c, *f, ctx, st);
                ctx.label("fam=" + c.fam);
                if (c.giant) ctx.label(st.total < (1ull << 31) ? "giant-stream(>=2^29 bytes)" : "giant-stream(~2^32 bytes)");
                ctx.label(st.total % 16 ? "total%16!=0" : "total%16==0");
                ctx.label(c.murmur_seed >> 32 ? "seed>32bit" : "seed<=32bit");
                ctx.nontrivial = (st.total % 16 != 0) && st.cross;
                return ok;
        };
        return pbt::main_(argc, argv, P);
}
