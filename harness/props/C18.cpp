// C18 - no hidden shared state: operations on distinct objects from different threads do not interfere; the library
//       keeps no writable static storage other than the one-time implementation bindings (and the self-test verdict);
//       first calls racing with other first calls still bind correctly.
// The library is linked as one relocatable object whose writable sections are renamed (isal_data / isal_bss /
// isal_datarel), so __start_/__stop_ symbols delimit exactly the library's writable static storage.
#include "../common/obsops.hpp"
#include <atomic>
#include <thread>

extern "C" {
extern uint8_t __start_isal_data[], __stop_isal_data[];
extern uint8_t __start_isal_bss[] __attribute__((weak)), __stop_isal_bss[] __attribute__((weak));
extern uint8_t __start_isal_datarel[] __attribute__((weak)), __stop_isal_datarel[] __attribute__((weak));
}

struct Case {
        int mode = 0; // 0 = snapshot of the writable sections around every operation; 1 = real threads vs sequential
        int rearm = 0;
        std::vector<std::vector<oo::Case>> ops; // per thread (mode 0: one list)
};
static J to_json(const Case &c)
{
        J j = J::obj();
        j.set("mode", c.mode).set("rearm", c.rearm);
        J a = J::arr();
        for (auto &t : c.ops) {
                J b = J::arr();
                for (auto &o : t) b.push(oo::to_json(o));
                a.push(b);
        }
        j.set("ops", a);
        return j;
}
static Case from_json(const J &j)
{
        Case c;
        c.mode = j.num("mode", 0);
        c.rearm = j.num("rearm", 0);
        for (auto &t : j.at("ops").a) {
                std::vector<oo::Case> v;
                for (auto &o : t.a) v.push_back(oo::from_json(o));
                c.ops.push_back(v);
        }
        return c;
}

struct Range { uint8_t *lo, *hi; const char *name; };
static std::vector<Range> g_sections;
static std::vector<std::pair<uint8_t *, std::string>> g_allowed; // 8-byte dispatch pointers
static std::vector<std::pair<void **, void *>> g_bindings;
static std::vector<std::pair<uintptr_t, std::string>> g_datasyms;

static std::vector<uint8_t> snapshot()
{
        std::vector<uint8_t> s;
        for (auto &r : g_sections) s.insert(s.end(), r.lo, r.hi);
        return s;
}
static std::string diff_outside_allowed(const std::vector<uint8_t> &before)
{
        size_t k = 0;
        for (auto &r : g_sections)
                for (uint8_t *p = r.lo; p < r.hi; p++, k++) {
                        if (*p == before[k]) continue;
                        bool ok = false;
                        for (auto &a : g_allowed)
                                if (p >= a.first && p < a.first + 8) ok = true;
                        if (ok) continue;
                        std::string near = "?";
                        for (auto &d : g_datasyms)
                                if (d.first <= (uintptr_t) p) near = d.second + "+" + std::to_string((uintptr_t) p - d.first);
                        char b[256];
                        snprintf(b, sizeof b, "byte at %s+%ld (nearest global symbol: %s) changed from %02x to %02x", r.name, (long) (p - r.lo), near.c_str(), before[k], *p);
                        return b;
                }
        return "";
}
static void rearm_all()
{
        for (auto &b : g_bindings) *b.first = b.second;
}
static std::vector<void *> bindings_now()
{
        std::vector<void *> v;
        for (auto &b : g_bindings) v.push_back(*b.first);
        return v;
}

static bool run(const Case &c, pbt::Ctx &ctx)
{
        oo::g_use_tramp = false;
        ctx.label(c.mode ? "mode=threads" : "mode=snapshot");
        std::set<std::string> units;
        for (auto &t : c.ops)
                for (auto &o : t) units.insert(o.kind);
        ctx.nontrivial = units.size() >= 3;
        if (c.mode == 0) {
                if (c.rearm) rearm_all();
                for (auto &o : c.ops[0]) {
                        std::vector<uint8_t> before = snapshot();
                        std::vector<uint8_t> obs;
                        bool nt = false;
                        std::string site;
                        if (!oo::execute(o, 0, ctx, obs, nt, site)) return false;
                        std::string d = diff_outside_allowed(before);
                        if (!d.empty())
                                if (ctx.fail("static-write|" + site.substr(0, site.find('/')), "writable static storage of the library changed during " + site + ": " + d)) return false;
                }
                return true;
        }
        // ---- sequential reference run
        size_t n = c.ops.size();
        std::vector<std::vector<std::vector<uint8_t>>> seq(n), con(n);
        rearm_all();
        for (size_t t = 0; t < n; t++)
                for (auto &o : c.ops[t]) {
                        std::vector<uint8_t> obs;
                        bool nt = false;
                        std::string site;
                        if (!oo::execute(o, 0, ctx, obs, nt, site)) return false;
                        seq[t].push_back(obs);
                }
        std::vector<void *> bind_seq = bindings_now();
        // ---- concurrent run on real threads (each on its own objects), optionally racing through the resolvers
        if (c.rearm) rearm_all();
        std::atomic<int> ready{ 0 };
        std::atomic<bool> go{ false };
        std::vector<pbt::Ctx> tctx(n);
        std::vector<int> tok(n, 1);
        for (auto &tc : tctx) tc.exclude = ctx.exclude;
        std::vector<std::thread> th;
        for (size_t t = 0; t < n; t++)
                th.emplace_back([&, t] {
                        ready++;
                        while (!go.load()) {}
                        for (auto &o : c.ops[t]) {
                                std::vector<uint8_t> obs;
                                bool nt = false;
                                std::string site;
                                if (!oo::execute(o, 0, tctx[t], obs, nt, site)) { tok[t] = 0; break; }
                                con[t].push_back(obs);
                        }
                });
        while (ready.load() < (int) n) {}
        go.store(true);
        for (auto &x : th) x.join();
        for (size_t t = 0; t < n; t++) {
                if (!tok[t]) return !ctx.fail("concurrent|" + tctx[t].key, "thread " + std::to_string(t) + " failed only when run concurrently: " + tctx[t].message);
                for (auto &k : tctx[t].known_hits) ctx.known_hits[k.first] += k.second;
                if (con[t] != seq[t])
                        if (ctx.fail("interference", "thread " + std::to_string(t) + " produced different results when run concurrently with " + std::to_string(n - 1) + " other thread(s)")) return false;
        }
        if (bindings_now() != bind_seq)
                if (ctx.fail("racy-binding", "implementation bindings after racing first calls differ from the sequential bindings")) return false;
        ctx.label("threads=" + std::to_string(n));
        if (c.rearm) ctx.label("racing-first-calls");
        return true;
}

int main(int argc, char **argv)
{
        pbt::Prop<Case> P;
        P.id = "C18";
        P.setup = [](pbt::Ctx &ctx) {
                oo::discover(ctx);
                g_sections.push_back({ __start_isal_data, __stop_isal_data, "isal_data" });
                if (__start_isal_bss && __stop_isal_bss > __start_isal_bss) g_sections.push_back({ __start_isal_bss, __stop_isal_bss, "isal_bss" });
                if (__start_isal_datarel && __stop_isal_datarel > __start_isal_datarel) g_sections.push_back({ __start_isal_datarel, __stop_isal_datarel, "isal_datarel" });
                size_t total = 0;
                for (auto &r : g_sections) total += r.hi - r.lo;
                size_t nsym = 0;
                for (size_t i = 0; i < isal_symtab_n; i++) {
                        std::string nme = isal_symtab[i].name;
                        uint8_t *a = (uint8_t *) isal_symtab[i].addr;
                        bool inside = false;
                        for (auto &r : g_sections) inside |= (a >= r.lo && a < r.hi);
                        if (!inside) continue;
                        nsym++;
                        g_datasyms.emplace_back((uintptr_t) a, nme);
                        const std::string sfx = "_dispatched";
                        if (nme.size() > sfx.size() && nme.compare(nme.size() - sfx.size(), sfx.size(), sfx) == 0) {
                                g_allowed.emplace_back(a, nme);
                                void *mb = isal::sym(nme.substr(0, nme.size() - sfx.size()) + "_mbinit");
                                if (mb) g_bindings.emplace_back((void **) a, mb);
                        }
                }
                std::sort(g_datasyms.begin(), g_datasyms.end());
                if (g_allowed.empty()) { fprintf(stderr, "HARNESS-ERROR: no <entry>_dispatched symbol inside the library's writable sections (hook off or sections not renamed)\n"); exit(3); }
                ctx.notes.push_back("library writable static storage: " + std::to_string(total) + " bytes in " + std::to_string(g_sections.size()) + " sections, " + std::to_string(nsym) +
                                    " global data symbols, allow-list = " + std::to_string(g_allowed.size()) + " dispatch pointers (8 bytes each)");
        };
        P.gen = [](pbt::Ctx &ctx) {
                using namespace pbt;
                Case c;
                c.mode = coin(1, 2);
                c.rearm = coin(1, 2);
                int maxthreads = (int) ctx.optnum("maxthreads", 8);
                int n = c.mode ? rng<int>(2, maxthreads) : 1;
                for (int t = 0; t < n; t++) {
                        std::vector<oo::Case> v;
                        int k = rng<int>(1, c.mode ? 4 : 6);
                        for (int i = 0; i < k; i++) v.push_back(oo::gen_case());
                        c.ops.push_back(v);
                }
                return c;
        };
        P.to_json = to_json;
        P.from_json = from_json;
        P.run = run;
        return pbt::main_(argc, argv, P);
}
