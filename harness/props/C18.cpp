// C18 - no hidden shared state: operations on distinct objects from different threads do not interfere; the library
//       keeps no writable static storage other than the one-time implementation bindings (and the self-test verdict);
//       first calls racing with other first calls still bind correctly.
// The library is linked as one relocatable object whose writable sections are renamed (isal_data / isal_bss /
// isal_datarel), so __start_/__stop_ symbols delimit exactly the library's writable static storage.
// Modes: 0 = snapshot of those sections around every operation (single thread);
//        1 = real threads, each with its own mixed operation list, vs the same lists run sequentially;
//        2 = hammer: every thread prepares ONE call of the same family / operation / entry point on its own objects and
//            repeats it in a tight loop (no allocation inside the loop) so that executions of the same code overlap in time.
#include "../common/obsops.hpp"
#include <atomic>
#include <thread>

extern "C" {
extern uint8_t __start_isal_data[], __stop_isal_data[];
extern uint8_t __start_isal_bss[] __attribute__((weak)), __stop_isal_bss[] __attribute__((weak));
extern uint8_t __start_isal_datarel[] __attribute__((weak)), __stop_isal_datarel[] __attribute__((weak));
}

struct HammerSpec {
        std::string kind; // hashfam | mhfam | aes | cat
        std::string what; // family label / op name / entry name
        uint64_t seed = 1;
        uint32_t len = 100;
        int legacy = 0;
};
struct Case {
        int mode = 0;
        int rearm = 0;
        int repeat = 1;
        std::vector<std::vector<oo::Case>> ops; // modes 0/1: per thread (mode 0: one list)
        std::vector<HammerSpec> hammer;         // mode 2: one spec per thread
};
static J to_json(const Case &c)
{
        J j = J::obj();
        j.set("mode", c.mode).set("rearm", c.rearm).set("repeat", c.repeat);
        J a = J::arr();
        for (auto &t : c.ops) {
                J b = J::arr();
                for (auto &o : t) b.push(oo::to_json(o));
                a.push(b);
        }
        j.set("ops", a);
        J h = J::arr();
        for (auto &x : c.hammer) {
                J o = J::obj();
                o.set("kind", x.kind).set("what", x.what).set("seed", (unsigned long long) x.seed).set("len", x.len).set("legacy", x.legacy);
                h.push(o);
        }
        j.set("hammer", h);
        return j;
}
static Case from_json(const J &j)
{
        Case c;
        c.mode = j.num("mode", 0);
        c.rearm = j.num("rearm", 0);
        c.repeat = j.num("repeat", 1);
        for (auto &t : j.at("ops").a) {
                std::vector<oo::Case> v;
                for (auto &o : t.a) v.push_back(oo::from_json(o));
                c.ops.push_back(v);
        }
        if (j.has("hammer"))
                for (auto &o : j.at("hammer").a) {
                        HammerSpec h;
                        h.kind = o.at("kind").s; h.what = o.at("what").s; h.seed = o.unum("seed", 1); h.len = (uint32_t) o.unum("len", 100); h.legacy = o.num("legacy", 0);
                        c.hammer.push_back(h);
                }
        return c;
}

struct Range { uint8_t *lo, *hi; const char *name; };
static std::vector<Range> g_sections;
static std::vector<std::pair<uint8_t *, std::string>> g_allowed; // 8-byte dispatch pointers
static std::vector<std::pair<void **, void *>> g_bindings;
static std::vector<std::pair<uintptr_t, std::string>> g_datasyms;

static std::vector<uint8_t> snapshot()
{
        std::vector<uint8_t> s;
        for (auto &r : g_sections) s.insert(s.end(), r.lo, r.hi);
        return s;
}
static std::string diff_outside_allowed(const std::vector<uint8_t> &before)
{
        size_t k = 0;
        for (auto &r : g_sections)
                for (uint8_t *p = r.lo; p < r.hi; p++, k++) {
                        if (*p == before[k]) continue;
                        bool ok = false;
                        for (auto &a : g_allowed)
                                if (p >= a.first && p < a.first + 8) ok = true;
                        if (ok) continue;
                        std::string near = "?";
                        for (auto &d : g_datasyms)
                                if (d.first <= (uintptr_t) p) near = d.second + "+" + std::to_string((uintptr_t) p - d.first);
                        char b[256];
                        snprintf(b, sizeof b, "byte at %s+%ld (nearest global symbol: %s) changed from %02x to %02x", r.name, (long) (p - r.lo), near.c_str(), before[k], *p);
                        return b;
                }
        return "";
}
static void rearm_all()
{
        for (auto &b : g_bindings) *b.first = b.second;
}
static std::vector<void *> bindings_now()
{
        std::vector<void *> v;
        for (auto &b : g_bindings) v.push_back(*b.first);
        return v;
}

// ---- hammer mode
struct Prepared {
        guard::Arena A;
        void *fn = nullptr;
        uint64_t argv[12] = { 0 };
        int nargs = 0;
        std::vector<std::pair<uint8_t *, std::vector<uint8_t>>> restore; // writable buffers and their initial contents
        std::vector<std::pair<uint8_t *, size_t>> outs;
        const isal::HashFamily *hf = nullptr;
        const mh::Fam *mf = nullptr;
        uint8_t *mgr = nullptr, *cx = nullptr, *msg = nullptr, *dg = nullptr;
        uint32_t len = 0;
        bool ret_meaningful = false;
};
static bool prepare(const HammerSpec &h, Prepared &P, pbt::Ctx &ctx)
{
        if (h.kind == "hashfam") {
                for (auto &f : oo::g_hash)
                        if (f.label() == h.what) P.hf = &f;
                if (!P.hf || P.hf->is_isal()) return false;
                const isal::AlgoDesc &D = isal::algo_desc[P.hf->algo];
                P.mgr = P.A.alloc("mgr", D.mgr_size, 64, guard::END, 0x5a);
                P.cx = P.A.alloc("ctx", D.ctx_size, 64, guard::END, 0x3c);
                P.msg = P.A.alloc("msg", h.len, 1, guard::END);
                pbt::expand(h.seed, P.msg, h.len);
                P.len = h.len;
                P.hf->init(P.mgr);
                return true;
        }
        if (h.kind == "mhfam") {
                for (auto &f : oo::g_mh)
                        if (f.label() == h.what) P.mf = &f;
                if (!P.mf) return false;
                P.cx = P.A.alloc("ctx", mh::ctx_size(P.mf->kind), 16, guard::END, 0x3c);
                P.msg = P.A.alloc("msg", h.len, 1, guard::END);
                pbt::expand(h.seed, P.msg, h.len);
                P.len = h.len;
                P.dg = P.A.alloc("digest", 64, 4, guard::END, 1);
                return true;
        }
        if (h.kind == "aes") {
                aops::Case ac;
                ac.op = h.what;
                ac.seed = h.seed;
                ac.len = h.len;
                ac.aad_len = h.len % 40;
                ac.pre_len = (h.what.find("_nt") != std::string::npos) ? 64 : h.len % 23;
                aops::Built B;
                if (aops::build(ac, oo::g_O, P.A, B, ctx) != 0) return false;
                P.fn = B.fn;
                memcpy(P.argv, B.args, sizeof B.args);
                P.nargs = B.nargs;
                P.outs = B.outs;
        } else {
                const ent::Entry *e = nullptr;
                for (auto &x : oo::g_entries)
                        if (x.name == h.what) e = &x;
                if (!e) return false;
                ent::Params p;
                p.seed = h.seed; p.len = h.len; p.aad_len = h.len % 40; p.legacy = h.legacy && !e->legacy.empty();
                p.w = 1 + h.seed % 48; p.mask = 0x1f;
                if (h.what.find("_nt") != std::string::npos) p.len = p.len / 64 * 64;
                if (e->group == "cbc") p.len = p.len / 16 * 16;
                if (e->group == "xts" && p.len < 16) p.len = 16;
                ent::Call call;
                if (!e->build(P.A, p, call)) return false;
                P.fn = call.fn;
                memcpy(P.argv, call.argv, sizeof call.argv);
                P.nargs = call.nargs;
                // declared outputs only: objects (manager, contexts, key data, states) have opaque parts that legitimately hold scratch values
                for (int i = 0; i < call.nargs; i++)
                        if (call.desc[i].kind == ent::OUT) P.outs.emplace_back(call.desc[i].ptr, call.desc[i].size);
                P.ret_meaningful = call.returns_int;
        }
        for (auto &b : P.A.bufs)
                if (!b.readonly && b.len) P.restore.emplace_back(b.p, std::vector<uint8_t>(b.p, b.p + b.len));
        return true;
}
static void hammer_once(Prepared &P, std::vector<uint8_t> &obs)
{
        obs.clear();
        if (P.hf) {
                isal::ctx_init(P.hf->algo, P.cx);
                void *r = P.hf->submit(P.mgr, P.cx, P.msg, P.len, ISAL_HASH_ENTIRE);
                int guardn = 0;
                while (!r && guardn++ < 64) r = P.hf->flush(P.mgr);
                obs = ref::digest_from_words(P.hf->algo, isal::ctx_digest(P.hf->algo, P.cx));
                return;
        }
        if (P.mf) {
                if (P.mf->kind == mh::MH_MURMUR) ((mh::init_seed_fn) P.mf->init)(P.cx, 77);
                else ((mh::init_fn) P.mf->init)(P.cx);
                ((mh::update_fn) P.mf->update)(P.cx, P.msg, P.len);
                if (P.mf->kind == mh::MH_MURMUR) ((mh::final2_fn) P.mf->finalize)(P.cx, P.dg, P.dg + 32);
                else ((mh::final_fn) P.mf->finalize)(P.cx, P.dg);
                obs.assign(P.dg, P.dg + 48);
                return;
        }
        for (auto &r : P.restore) memcpy(r.first, r.second.data(), r.second.size());
        uint64_t ret = isal::call_fn(P.fn, { P.argv[0], P.argv[1], P.argv[2], P.argv[3], P.argv[4], P.argv[5], P.argv[6], P.argv[7], P.argv[8], P.argv[9] });
        if (P.ret_meaningful) obs.insert(obs.end(), (uint8_t *) &ret, (uint8_t *) &ret + 4);
        for (auto &o : P.outs) obs.insert(obs.end(), o.first, o.first + o.second);
}

static bool run_hammer(const Case &c, pbt::Ctx &ctx)
{
        size_t n = c.hammer.size();
        std::vector<std::unique_ptr<Prepared>> P(n);
        std::vector<std::vector<uint8_t>> alone(n);
        for (size_t t = 0; t < n; t++) {
                P[t].reset(new Prepared());
                if (!prepare(c.hammer[t], *P[t], ctx)) { ctx.label("hammer-skipped"); return true; }
                hammer_once(*P[t], alone[t]); // the run-alone result
                std::vector<uint8_t> again;
                hammer_once(*P[t], again);
                if (again != alone[t]) { ctx.label("hammer-not-repeatable-alone(skipped)"); return true; } // operation not idempotent under restore: not usable here
                if (P[t]->hf) {
                        std::vector<uint8_t> want = ref::hash(P[t]->hf->algo, P[t]->msg, P[t]->len);
                        if (alone[t] != want && ctx.fail("digest|" + c.hammer[t].what, c.hammer[t].what + ": run-alone digest wrong")) return false;
                }
        }
        if (c.rearm) rearm_all();
        std::atomic<int> ready{ 0 };
        std::atomic<bool> go{ false };
        std::vector<int> bad_iter(n, -1);
        std::vector<std::thread> th;
        for (size_t t = 0; t < n; t++)
                th.emplace_back([&, t] {
                        std::vector<uint8_t> obs;
                        ready++;
                        while (!go.load()) {}
                        for (int i = 0; i < c.repeat; i++) {
                                hammer_once(*P[t], obs);
                                if (obs != alone[t]) { bad_iter[t] = i; break; }
                        }
                });
        while (ready.load() < (int) n) {}
        go.store(true);
        for (auto &x : th) x.join();
        ctx.label("hammer=" + c.hammer[0].kind);
        ctx.label("hammer_iterations", (uint64_t) c.repeat * n);
        for (size_t t = 0; t < n; t++)
                if (bad_iter[t] >= 0)
                        if (ctx.fail("interference|" + c.hammer[t].what, c.hammer[t].what + ": thread " + std::to_string(t) + " of " + std::to_string(n) + " got a different result in iteration " +
                                                                                 std::to_string(bad_iter[t]) + " than when run alone (all threads execute the same code on their own objects)"))
                                return false;
        return true;
}

static bool run(const Case &c, pbt::Ctx &ctx)
{
        oo::g_use_tramp = false;
        ctx.label(c.mode == 2 ? "mode=hammer" : c.mode ? "mode=threads" : "mode=snapshot");
        if (c.mode == 2) {
                ctx.nontrivial = true;
                return run_hammer(c, ctx);
        }
        std::set<std::string> units;
        for (auto &t : c.ops)
                for (auto &o : t) units.insert(o.kind);
        ctx.nontrivial = units.size() >= 3;
        if (c.mode == 0) {
                if (c.rearm) rearm_all();
                for (auto &o : c.ops[0]) {
                        std::vector<uint8_t> before = snapshot();
                        std::vector<uint8_t> obs;
                        bool nt = false;
                        std::string site;
                        if (!oo::execute(o, 0, ctx, obs, nt, site)) return false;
                        std::string d = diff_outside_allowed(before);
                        if (!d.empty())
                                if (ctx.fail("static-write|" + site.substr(0, site.find('/')), "writable static storage of the library changed during " + site + ": " + d)) return false;
                }
                return true;
        }
        // ---- sequential reference run
        size_t n = c.ops.size();
        std::vector<std::vector<std::vector<uint8_t>>> seq(n), con(n);
        rearm_all();
        for (size_t t = 0; t < n; t++)
                for (auto &o : c.ops[t]) {
                        std::vector<uint8_t> obs;
                        bool nt = false;
                        std::string site;
                        if (!oo::execute(o, 0, ctx, obs, nt, site)) return false;
                        seq[t].push_back(obs);
                }
        std::vector<void *> bind_seq = bindings_now();
        // ---- concurrent run on real threads (each on its own objects), optionally racing through the resolvers
        if (c.rearm) rearm_all();
        std::atomic<int> ready{ 0 };
        std::atomic<bool> go{ false };
        std::vector<pbt::Ctx> tctx(n);
        std::vector<int> tok(n, 1);
        for (auto &tc : tctx) tc.exclude = ctx.exclude;
        std::vector<std::thread> th;
        for (size_t t = 0; t < n; t++)
                th.emplace_back([&, t] {
                        ready++;
                        while (!go.load()) {}
                        for (auto &o : c.ops[t]) {
                                std::vector<uint8_t> obs;
                                bool nt = false;
                                std::string site;
                                if (!oo::execute(o, 0, tctx[t], obs, nt, site)) { tok[t] = 0; break; }
                                con[t].push_back(obs);
                        }
                });
        while (ready.load() < (int) n) {}
        go.store(true);
        for (auto &x : th) x.join();
        for (size_t t = 0; t < n; t++) {
                if (!tok[t]) return !ctx.fail("concurrent|" + tctx[t].key, "thread " + std::to_string(t) + " failed only when run concurrently: " + tctx[t].message);
                for (auto &k : tctx[t].known_hits) ctx.known_hits[k.first] += k.second;
                if (con[t] != seq[t])
                        if (ctx.fail("interference", "thread " + std::to_string(t) + " produced different results when run concurrently with " + std::to_string(n - 1) + " other thread(s)")) return false;
        }
        if (bindings_now() != bind_seq)
                if (ctx.fail("racy-binding", "implementation bindings after racing first calls differ from the sequential bindings")) return false;
        ctx.label("threads=" + std::to_string(n));
        if (c.rearm) ctx.label("racing-first-calls");
        return true;
}

int main(int argc, char **argv)
{
        pbt::Prop<Case> P;
        P.id = "C18";
        P.setup = [](pbt::Ctx &ctx) {
                oo::discover(ctx);
                g_sections.push_back({ __start_isal_data, __stop_isal_data, "isal_data" });
                if (__start_isal_bss && __stop_isal_bss > __start_isal_bss) g_sections.push_back({ __start_isal_bss, __stop_isal_bss, "isal_bss" });
                if (__start_isal_datarel && __stop_isal_datarel > __start_isal_datarel) g_sections.push_back({ __start_isal_datarel, __stop_isal_datarel, "isal_datarel" });
                size_t total = 0;
                for (auto &r : g_sections) total += r.hi - r.lo;
                size_t nsym = 0;
                for (size_t i = 0; i < isal_symtab_n; i++) {
                        std::string nme = isal_symtab[i].name;
                        uint8_t *a = (uint8_t *) isal_symtab[i].addr;
                        bool inside = false;
                        for (auto &r : g_sections) inside |= (a >= r.lo && a < r.hi);
                        if (!inside) continue;
                        nsym++;
                        g_datasyms.emplace_back((uintptr_t) a, nme);
                        const std::string sfx = "_dispatched";
                        if (nme.size() > sfx.size() && nme.compare(nme.size() - sfx.size(), sfx.size(), sfx) == 0) {
                                g_allowed.emplace_back(a, nme);
                                void *mb = isal::sym(nme.substr(0, nme.size() - sfx.size()) + "_mbinit");
                                if (mb) g_bindings.emplace_back((void **) a, mb);
                        }
                }
                std::sort(g_datasyms.begin(), g_datasyms.end());
                if (g_allowed.empty()) { fprintf(stderr, "HARNESS-ERROR: no <entry>_dispatched symbol inside the library's writable sections (hook off or sections not renamed)\n"); exit(3); }
                ctx.notes.push_back("library writable static storage: " + std::to_string(total) + " bytes in " + std::to_string(g_sections.size()) + " sections, " + std::to_string(nsym) +
                                    " global data symbols, allow-list = " + std::to_string(g_allowed.size()) + " dispatch pointers (8 bytes each)");
        };
        P.gen = [](pbt::Ctx &ctx) {
                using namespace pbt;
                Case c;
                c.mode = weighted({ 3, 1, 4 });
                c.rearm = coin(1, 2);
                int maxthreads = (int) ctx.optnum("maxthreads", 8);
                int n = c.mode ? rng<int>(2, maxthreads) : 1;
                if (c.mode == 2) {
                        c.repeat = rng<int>(50, 1500);
                        HammerSpec h;
                        switch (weighted({ 5, 2, 4, 3 })) {
                        case 0: {
                                h.kind = "hashfam";
                                std::vector<std::string> fams;
                                for (auto &f : oo::g_hash)
                                        if (!f.is_isal()) fams.push_back(f.label());
                                h.what = fams[rng<size_t>(0, fams.size() - 1)];
                                break;
                        }
                        case 1: h.kind = "mhfam"; h.what = oo::g_mh[rng<size_t>(0, oo::g_mh.size() - 1)].label(); break;
                        case 2: h.kind = "aes"; h.what = oo::g_O.names[rng<size_t>(0, oo::g_O.names.size() - 1)]; break;
                        default: h.kind = "cat"; h.what = oo::g_entries[rng<size_t>(0, oo::g_entries.size() - 1)].name; h.legacy = coin(1, 3); break;
                        }
                        for (int t = 0; t < n; t++) {
                                HammerSpec x = h;
                                x.seed = rng64(1, UINT64_MAX - 8);
                                x.len = weighted({ 3, 2 }) == 0 ? rng<uint32_t>(1, 250) : rng<uint32_t>(1, 3000);
                                c.hammer.push_back(x);
                        }
                        return c;
                }
                for (int t = 0; t < n; t++) {
                        std::vector<oo::Case> v;
                        int k = rng<int>(1, c.mode ? 4 : 6);
                        for (int i = 0; i < k; i++) v.push_back(oo::gen_case());
                        c.ops.push_back(v);
                }
                return c;
        };
        P.to_json = to_json;
        P.from_json = from_json;
        P.run = run;
        return pbt::main_(argc, argv, P);
}
