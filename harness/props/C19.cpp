// C19 - every public and CPU-specific entry point preserves the callee-saved machine state of the SysV ABI
//       (rsp, rbx, rbp, r12-r15, DF clear, MXCSR control bits, x87 control word) on every exit path and writes nothing
//       above its own stack frame.  Every call of the shared executors is routed through the assembly trampoline.
#include "../common/aes_ops.hpp"
#include "../common/entries.hpp"
#include "../common/hash_engine.hpp"
#include "../common/mh_engine.hpp"
#include "../common/tramp.hpp"

struct Case {
        std::string kind; // hash | mh | aes | cat | scan
        int rearm = 0;    // re-arm every dispatch pointer first, so that the call runs through the resolver
        he::Case h;
        mh::Case m;
        aops::Case a;
        // cat
        std::string entry;
        int legacy = 0, null_first = 0;
        uint64_t seed = 1, len = 64, aad_len = 16;
        int tag_len = 16;
        // mbmgr: job-manager level entry points of one family; block: multi-hash / murmur block and tail functions
        std::string sym;        // "<algo>/<fam>" for mbmgr, symbol name for block
        std::vector<uint32_t> jobs; // mbmgr: job lengths in blocks (submitted in order, then flushed)
        uint32_t nblocks = 1;
        // scan
        std::string scan;
        uint32_t idx = 0, maxi = 0;
        uint64_t mask = 0, trigger = 0;
};
static J to_json(const Case &c)
{
        J j = J::obj();
        j.set("kind", c.kind).set("rearm", c.rearm);
        if (c.kind == "hash") j.set("h", he::to_json(c.h));
        else if (c.kind == "mh") j.set("m", mh::to_json(c.m));
        else if (c.kind == "aes") j.set("a", aops::to_json(c.a));
        else if (c.kind == "cat")
                j.set("entry", c.entry).set("legacy", c.legacy).set("null_first", c.null_first).set("seed", (unsigned long long) c.seed).set("len", (unsigned long long) c.len)
                        .set("aad_len", (unsigned long long) c.aad_len).set("tag_len", c.tag_len);
        else if (c.kind == "mbmgr" || c.kind == "block") {
                j.set("sym", c.sym).set("seed", (unsigned long long) c.seed).set("nblocks", c.nblocks);
                J a = J::arr();
                for (auto x : c.jobs) a.push(J(x));
                j.set("jobs", a);
        } else j.set("scan", c.scan).set("seed", (unsigned long long) c.seed).set("idx", c.idx).set("maxi", c.maxi).set("mask", (unsigned long long) c.mask).set("trigger", (unsigned long long) c.trigger);
        return j;
}
static Case from_json(const J &j)
{
        Case c;
        c.kind = j.at("kind").s;
        c.rearm = j.num("rearm", 0);
        if (c.kind == "hash") c.h = he::from_json(j.at("h"));
        else if (c.kind == "mh") c.m = mh::from_json(j.at("m"));
        else if (c.kind == "aes") c.a = aops::from_json(j.at("a"));
        else if (c.kind == "cat") {
                c.entry = j.at("entry").s;
                c.legacy = j.num("legacy", 0); c.null_first = j.num("null_first", 0); c.seed = j.unum("seed", 1); c.len = j.unum("len", 64);
                c.aad_len = j.unum("aad_len", 16); c.tag_len = j.num("tag_len", 16);
        } else if (c.kind == "mbmgr" || c.kind == "block") {
                c.sym = j.at("sym").s;
                c.seed = j.unum("seed", 1);
                c.nblocks = (uint32_t) j.unum("nblocks", 1);
                for (auto &x : j.at("jobs").a) c.jobs.push_back((uint32_t) x.unum());
        } else {
                c.scan = j.str("scan", "base");
                c.seed = j.unum("seed", 1); c.idx = j.unum("idx", 0); c.maxi = j.unum("maxi", 0); c.mask = j.unum("mask", 0); c.trigger = j.unum("trigger", 0);
        }
        return c;
}

static std::vector<isal::HashFamily> g_hash;
static std::vector<mh::Fam> g_mh;
static aops::Ops g_O;
static std::vector<ent::Entry> g_entries;
static std::vector<std::pair<void **, void *>> g_bindings; // (<entry>_dispatched, <entry>_mbinit)
struct MbMgr { int algo; std::string fam; void *init, *submit, *flush; std::string label() const { return std::string(isal::algo_desc[algo].name) + "/" + fam; } };
static std::vector<MbMgr> g_mbmgr;
static std::vector<std::string> g_blockfns;

// ---- the ABI oracle, applied to every trampolined call
static std::string g_abi_fail, g_abi_key, g_trace;
static uint64_t g_hidden = 1;
static std::string g_exit_class;
static const char *symname(void *fn)
{
        for (size_t i = 0; i < isal_symtab_n; i++)
                if (isal_symtab[i].addr == fn) return isal_symtab[i].name;
        return "?";
}
static uint64_t tramp_invoke(void *fn, const uint64_t *args, int nargs)
{
        tramp::prepare(fn, args, nargs, 0xD7, g_hidden++, tramp::host_has_avx512());
        vtramp();
        tramp::Result R = tramp::finish(nargs);
        const TrampBlock &T = g_tramp;
        const char *sn = symname(fn);
        std::string bad;
        static const int saved[] = { tramp::RBX, tramp::RBP, tramp::R12, tramp::R13, tramp::R14, tramp::R15 };
        static const char *rn[] = { "rax", "rbx", "rcx", "rdx", "rsi", "rdi", "rbp", "rsp", "r8", "r9", "r10", "r11", "r12", "r13", "r14", "r15" };
        if (T.out_gpr[tramp::RSP] != R.call_rsp) bad = "rsp after return differs by " + std::to_string((long) (T.out_gpr[tramp::RSP] - R.call_rsp));
        for (int r : saved)
                if (bad.empty() && T.out_gpr[r] != tramp::SENT[r]) bad = std::string(rn[r]) + " not preserved";
        if (bad.empty() && (T.out_flags & 0x400)) bad = "direction flag set on return";
        if (bad.empty() && ((T.out_mxcsr ^ T.in_mxcsr) & 0xFFC0)) bad = "MXCSR control bits changed";
        if (bad.empty() && T.out_fcw != T.in_fcw) bad = "x87 control word changed";
        if (bad.empty() && !R.canary_ok) bad = "stack above the callee's frame overwritten (canary word " + std::to_string(R.canary_word) + ")";
        if (!bad.empty() && g_abi_fail.empty()) {
                g_abi_fail = std::string(sn) + ": " + bad + (g_exit_class.empty() ? "" : " [" + g_exit_class + "]");
                g_abi_key = bad.substr(0, bad.find(' ')) + "|" + sn;
        }
        g_trace += sn;
        g_trace += ';';
        return T.out_gpr[tramp::RAX];
}

static void rearm_all()
{
        for (auto &b : g_bindings) *b.first = b.second;
}

static bool run(const Case &c, pbt::Ctx &ctx)
{
        g_abi_fail.clear();
        g_abi_key.clear();
        g_trace.clear();
        g_exit_class.clear();
        g_hidden = c.seed | 1;
        if (c.rearm) rearm_all();
        guard::FaultInfo fi;
        bool ok = true;
        isal::g_invoke = tramp_invoke;
        struct Off { ~Off() { isal::g_invoke = nullptr; } } off;

        if (c.kind == "hash") {
                const isal::HashFamily *f = nullptr;
                for (auto &x : g_hash)
                        if (x.label() == c.h.fam) f = &x;
                if (!f) { ctx.label("absent-family"); return true; }
                he::ExecStats st;
                he::ExecOpts eo;
                eo.images = false;
                g_exit_class = "history";
                ok = he::execute(c.h, *f, ctx, st, eo);
                ctx.label("kind=hash/" + c.h.fam);
        } else if (c.kind == "mh") {
                const mh::Fam *f = nullptr;
                for (auto &x : g_mh)
                        if (x.label() == c.m.fam) f = &x;
                if (!f) { ctx.label("absent-family"); return true; }
                mh::Stats st;
                g_exit_class = "updates";
                ok = mh::execute(c.m, *f, ctx, st);
                ctx.label("kind=mh/" + c.m.fam);
        } else if (c.kind == "aes") {
                guard::Arena A;
                aops::Built B;
                isal::g_invoke = nullptr; // set-up calls are not observed
                int br = aops::build(c.a, g_O, A, B, ctx);
                if (br == 1 || br == 3) return true;
                if (br == 2) return false;
                g_exit_class = B.exitclass;
                bool okc = guard::guarded_call(fi, [&] { tramp_invoke(B.fn, B.args, B.nargs); });
                if (!okc) {
                        A.describe(fi);
                        return !ctx.fail("fault|" + c.a.op, c.a.op + ": fault: " + fi.where);
                }
                ctx.label("kind=aes/" + c.a.op);
        } else if (c.kind == "cat") {
                const ent::Entry *e = nullptr;
                for (auto &x : g_entries)
                        if (x.name == c.entry) e = &x;
                if (!e) { ctx.label("absent-entry"); return true; }
                guard::Arena A;
                ent::Params p;
                p.seed = c.seed; p.len = c.len; p.aad_len = c.aad_len; p.tag_len = c.tag_len; p.legacy = c.legacy && !e->legacy.empty();
                p.w = 1 + c.seed % 48; p.mask = 0x1f;
                p.xts_short = true;
                if (c.entry.find("_nt") != std::string::npos) p.len = p.len / 64 * 64;
                if (e->group == "cbc") p.len = p.len / 16 * 16;
                ent::Call call;
                isal::g_invoke = nullptr;
                if (!e->build(A, p, call)) { ctx.label("absent-entry"); return true; }
                if (c.rearm) rearm_all(); // the builder's own internal calls have bound the pointers again
                uint64_t argv[10];
                memcpy(argv, call.argv, sizeof argv);
                bool nulled = false;
                if (c.null_first && !p.legacy)
                        for (int i = 0; i < call.nargs && !nulled; i++)
                                if (call.desc[i].kind != ent::SCALAR && call.desc[i].null_err && !call.desc[i].null_unspecified) { argv[i] = 0; nulled = true; }
                g_exit_class = nulled ? "error-return" : (e->group == "xts" && p.len < 16) ? "sub-block" : "valid,len=" + std::to_string(p.len % 16) + (p.len > 128 ? ",bulk" : "");
                bool okc = guard::guarded_call(fi, [&] { tramp_invoke(call.fn, argv, call.nargs); });
                if (!okc) {
                        A.describe(fi);
                        return !ctx.fail("fault|" + call.entry, call.entry + ": fault: " + fi.where);
                }
                ctx.label("kind=cat/" + e->group + (nulled ? "/error-return" : ""));
        } else if (c.kind == "mbmgr") {
                const MbMgr *m = nullptr;
                for (auto &x : g_mbmgr)
                        if (x.label() == c.sym) m = &x;
                if (!m) { ctx.label("absent-entry"); return true; }
                const isal::AlgoDesc &D = isal::algo_desc[m->algo];
                guard::Arena A;
                uint8_t *mgr = A.alloc("mgr", D.mgr_size, 64, guard::END, 0x5a);
                std::vector<uint8_t *> jobs;
                g_exit_class = "jobs=" + std::to_string(c.jobs.size());
                bool okc = guard::guarded_call(fi, [&] {
                        uint64_t a0[1] = { (uint64_t) mgr };
                        tramp_invoke(m->init, a0, 1);
                        for (size_t i = 0; i < c.jobs.size(); i++) {
                                uint8_t *job = A.alloc("job", D.ctx_size, 64, guard::END, 0);
                                memset(job, 0, D.ctx_size); // (the SHA-512 job length field is 64 bits wide)
                                uint32_t nb = c.jobs[i] ? c.jobs[i] : 1;
                                uint8_t *buf = A.alloc("job-buffer", (size_t) nb * D.block, 1, guard::END);
                                pbt::expand(c.seed + i, buf, (size_t) nb * D.block);
                                *(uint8_t **) (job + D.off_job_buffer) = buf;
                                *(uint32_t *) (job + D.off_job_len) = nb;
                                jobs.push_back(job);
                                uint64_t a2[2] = { (uint64_t) mgr, (uint64_t) job };
                                tramp_invoke(m->submit, a2, 2);
                        }
                        for (size_t i = 0; i <= c.jobs.size(); i++) {
                                uint64_t a1[1] = { (uint64_t) mgr };
                                if (!tramp_invoke(m->flush, a1, 1)) break;
                        }
                });
                if (!okc) {
                        A.describe(fi);
                        return !ctx.fail("fault|mbmgr|" + c.sym, "mb_mgr " + c.sym + ": fault: " + fi.where);
                }
                ctx.label("kind=mbmgr/" + c.sym);
        } else if (c.kind == "block") {
                void *fn = isal::sym(c.sym);
                if (!fn) { ctx.label("absent-entry"); return true; }
                guard::Arena A;
                uint32_t nb = c.nblocks ? c.nblocks : 1;
                uint8_t *in = A.alloc("input", (size_t) nb * 1024 + 2048, 1, guard::END);
                pbt::expand(c.seed, in, (size_t) nb * 1024 + 2048);
                uint8_t *dig = A.alloc("segment-digests", 4 * 8 * 16, 64, guard::END, 0x21);
                uint8_t *frame = A.alloc("frame-buffer", 1024 + 64, 64, guard::END, 0x22);
                uint8_t *out = A.alloc("out", 64, 16, guard::END, 0x23);
                uint64_t args[6] = { 0 };
                int na = 0;
                uint32_t total = (uint32_t) (c.seed % 5000);
                if (c.sym.find("_murmur3_x64_128_block_") != std::string::npos && c.sym.find("_mh_sha1_") == 0) {
                        args[0] = (uint64_t) in; args[1] = (uint64_t) dig; args[2] = (uint64_t) frame; args[3] = (uint64_t) out; args[4] = nb; na = 5;
                } else if (c.sym.find("_block_") != std::string::npos) {
                        args[0] = (uint64_t) in; args[1] = (uint64_t) dig; args[2] = (uint64_t) frame; args[3] = nb; na = 4;
                } else if (c.sym.find("_tail_") != std::string::npos) {
                        args[0] = (uint64_t) in; args[1] = total; args[2] = (uint64_t) dig; args[3] = (uint64_t) frame; args[4] = (uint64_t) out; na = 5; // in: 2 KiB partial buffer
                } else if (c.sym == "_murmur3_x64_128_block") {
                        args[0] = (uint64_t) in; args[1] = nb * 4; args[2] = (uint64_t) out; na = 3;
                } else if (c.sym == "_murmur3_x64_128_tail") {
                        args[0] = (uint64_t) in; args[1] = total; args[2] = (uint64_t) out; na = 3;
                } else { ctx.label("absent-entry"); return true; }
                g_exit_class = "nblocks=" + std::to_string(nb > 3 ? 3 : nb) + ",total%1024=" + std::to_string(total % 1024 > 1015 ? 1 : 0);
                bool okc = guard::guarded_call(fi, [&] { tramp_invoke(fn, args, na); });
                if (!okc) {
                        A.describe(fi);
                        return !ctx.fail("fault|" + c.sym, c.sym + ": fault: " + fi.where);
                }
                ctx.label("kind=block");
        } else {
                void *fn = isal::sym("_rolling_hash2_run_until_" + c.scan);
                if (!fn || !isal::host_can_run(c.scan)) { ctx.label("absent-entry"); return true; }
                guard::Arena A;
                uint32_t n = c.maxi + 64;
                uint8_t *b1 = A.alloc("b1", n, 1, guard::END), *b2 = A.alloc("b2", n, 1, guard::END);
                pbt::expand(c.seed, b1, n);
                pbt::expand(c.seed + 1, b2, n);
                uint64_t *t1 = (uint64_t *) A.alloc("t1", 2048, 8, guard::END), *t2 = (uint64_t *) A.alloc("t2", 2048, 8, guard::END);
                pbt::expand(c.seed + 2, (uint8_t *) t1, 2048);
                pbt::expand(c.seed + 3, (uint8_t *) t2, 2048);
                uint32_t *idx = (uint32_t *) A.alloc("idx", 4, 4, guard::END);
                *idx = c.idx <= c.maxi ? c.idx : c.maxi;
                uint64_t args[9] = { (uint64_t) idx, c.maxi, (uint64_t) t1, (uint64_t) t2, (uint64_t) b1, (uint64_t) b2, c.seed * 77, c.mask, c.trigger & c.mask };
                g_exit_class = "remaining=" + std::to_string((c.maxi - *idx) % 4);
                bool okc = guard::guarded_call(fi, [&] { tramp_invoke(fn, args, 9); });
                if (!okc) {
                        A.describe(fi);
                        return !ctx.fail("fault|scan_" + c.scan, "scan " + c.scan + ": fault: " + fi.where);
                }
                ctx.label("kind=scan/" + c.scan);
        }
        ctx.nontrivial = !g_trace.empty();
        ctx.nt_key = g_trace + "|" + g_exit_class + (c.rearm ? "|resolver" : "");
        if (c.rearm) ctx.label("through-resolver");
        if (!g_abi_fail.empty())
                if (ctx.fail(g_abi_key, g_abi_fail)) return false;
        return ok;
}

int main(int argc, char **argv)
{
        pbt::Prop<Case> P;
        P.id = "C19";
        P.setup = [](pbt::Ctx &ctx) {
                for (auto &f : isal::hash_families())
                        if (f.runnable) g_hash.push_back(f);
                for (auto &f : mh::families({ mh::MH_SHA1, mh::MH_SHA256, mh::MH_MURMUR }))
                        if (f.runnable) g_mh.push_back(f);
                g_O.discover("");
                aops::g_xts_short = true;
                g_entries = ent::all_entries();
                for (size_t i = 0; i < isal_symtab_n; i++) {
                        std::string n = isal_symtab[i].name;
                        const std::string sfx = "_dispatched";
                        if (n.size() > sfx.size() && n.compare(n.size() - sfx.size(), sfx.size(), sfx) == 0) {
                                void *mb = isal::sym(n.substr(0, n.size() - sfx.size()) + "_mbinit");
                                if (mb) g_bindings.emplace_back((void **) isal_symtab[i].addr, mb);
                        }
                }
                for (int a = 0; a < isal::NALGO; a++) {
                        std::string pre = std::string("_") + isal::algo_desc[a].name + "_mb_mgr_submit_";
                        for (size_t i = 0; i < isal_symtab_n; i++) {
                                std::string n = isal_symtab[i].name;
                                if (n.compare(0, pre.size(), pre)) continue;
                                std::string fam = n.substr(pre.size()), b = std::string("_") + isal::algo_desc[a].name + "_mb_mgr_";
                                MbMgr m{ a, fam, nullptr, isal_symtab[i].addr, isal::sym(b + "flush_" + fam) };
                                for (const std::string &f : { fam, std::string(fam == "avx" || fam == "sse_ni" ? "sse" : fam == "avx512_ni" ? "avx512" : fam) })
                                        if (!m.init) m.init = isal::sym(b + "init_" + f);
                                if (m.init && m.flush && isal::host_can_run(fam)) g_mbmgr.push_back(m);
                        }
                }
                {
                        void *i = isal::sym("_sha512_sb_mgr_init_sse4"), *su = isal::sym("_sha512_sb_mgr_submit_sse4"), *fl = isal::sym("_sha512_sb_mgr_flush_sse4");
                        if (i && su && fl) g_mbmgr.push_back(MbMgr{ isal::SHA512, "sb_sse4", i, su, fl });
                }
                for (size_t i = 0; i < isal_symtab_n; i++) {
                        std::string n = isal_symtab[i].name;
                        if (!isal_symtab[i].is_func) continue;
                        bool blk = (n.find("_mh_sha") == 0 && (n.find("_block_") != std::string::npos || n.find("_tail_") != std::string::npos)) || n == "_murmur3_x64_128_block" ||
                                   n == "_murmur3_x64_128_tail";
                        if (!blk) continue;
                        std::string fam = n.substr(n.rfind('_') + 1);
                        if (n[1] == 'm' && n.find("_mh_") == 0 && !isal::host_can_run(fam)) continue;
                        g_blockfns.push_back(n);
                }
                ctx.notes.push_back("job-manager level families: " + std::to_string(g_mbmgr.size()) + ", block/tail level functions: " + std::to_string(g_blockfns.size()));
                if (g_bindings.empty()) ctx.notes.push_back("hook symbols absent: the resolver path cannot be re-armed");
                ctx.notes.push_back("dispatch pointers that can be re-armed: " + std::to_string(g_bindings.size()));
                if (!tramp::host_has_avx512()) ctx.notes.push_back("host without AVX-512: vector registers are not loaded/captured by the trampoline");
        };
        P.gen = [](pbt::Ctx &ctx) {
                using namespace pbt;
                Case c;
                c.seed = rng64(1, UINT64_MAX - 8);
                c.rearm = !g_bindings.empty() && coin(1, 5);
                switch (weighted({ 3, 2, 5, 4, 1, 3, 2 })) {
                case 0: {
                        c.kind = "hash";
                        he::GenOpts go;
                        go.allow_bad = true;
                        go.max_cmds = 30;
                        go.big_max = 8192;
                        c.h = he::gen_case(g_hash[rng<size_t>(0, g_hash.size() - 1)], go);
                        break;
                }
                case 1:
                        c.kind = "mh";
                        c.m = mh::gen_case(g_mh[rng<size_t>(0, g_mh.size() - 1)], 20000);
                        break;
                case 2:
                        c.kind = "aes";
                        c.a = aops::gen_case(g_O);
                        break;
                case 3: {
                        c.kind = "cat";
                        const ent::Entry &e = g_entries[rng<size_t>(0, g_entries.size() - 1)];
                        c.entry = e.name;
                        c.legacy = coin(1, 3);
                        c.null_first = coin(1, 4);
                        c.len = weighted({ 1, 6, 3 }) == 0 ? 0 : (coin() ? 16 * rng<uint64_t>(1, 40) : rng<uint64_t>(1, 1500));
                        if (e.group == "xts") c.len = coin(1, 5) ? rng<uint64_t>(0, 15) : 16 * rng<uint64_t>(1, 40) + rng<uint64_t>(0, 15);
                        c.aad_len = coin(1, 4) ? 0 : rng<uint64_t>(1, 64);
                        c.tag_len = pick<int>({ 16, 12, 8 });
                        break;
                }
                case 5: {
                        c.kind = "mbmgr";
                        const MbMgr &m = g_mbmgr[rng<size_t>(0, g_mbmgr.size() - 1)];
                        c.sym = m.label();
                        int lanes = isal::documented_lanes(m.algo, m.fam);
                        if (lanes <= 0) lanes = 2;
                        int k = rng<int>(0, 2 * lanes + 1);
                        for (int i = 0; i < k; i++) c.jobs.push_back(rng<uint32_t>(1, 6));
                        break;
                }
                case 6:
                        c.kind = "block";
                        c.sym = g_blockfns[rng<size_t>(0, g_blockfns.size() - 1)];
                        c.nblocks = rng<uint32_t>(1, 5);
                        break;
                default:
                        c.kind = "scan";
                        c.scan = pick<std::string>({ "base", "00", "04" });
                        c.maxi = rng<uint32_t>(0, 300);
                        c.idx = rng<uint32_t>(0, c.maxi);
                        c.mask = coin(1, 3) ? 0 : (1ull << rng<int>(0, 20)) - 1;
                        c.trigger = rng64(0, UINT64_MAX);
                        break;
                }
                (void) ctx;
                return c;
        };
        P.to_json = to_json;
        P.from_json = from_json;
        P.run = run;
        return pbt::main_(argc, argv, P);
}
