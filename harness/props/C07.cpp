// C07 - AES-GCM streaming (init / update* / finalize) equals the one-shot call for any segmentation.
#include "../common/aes_engine.hpp"

struct Case {
        std::string fam;
        int dec = 0, nt = 0, inplace = 0;
        uint64_t seed = 1, aad_len = 0;
        int tag_len = 16;
        int pl = 0;
        uint32_t sh = 0;
        std::vector<uint64_t> pieces;
};
static std::vector<ae::GcmFam> g_fams;

static J to_json(const Case &c)
{
        J j = J::obj();
        j.set("fam", c.fam).set("dec", c.dec).set("nt", c.nt).set("inplace", c.inplace).set("seed", (unsigned long long) c.seed);
        j.set("aad_len", (unsigned long long) c.aad_len).set("tag_len", c.tag_len).set("pl", c.pl).set("sh", c.sh);
        J a = J::arr();
        for (auto p : c.pieces) a.push(J((unsigned long long) p));
        j.set("pieces", a);
        return j;
}
static Case from_json(const J &j)
{
        Case c;
        c.fam = j.at("fam").s;
        c.dec = j.num("dec", 0); c.nt = j.num("nt", 0); c.inplace = j.num("inplace", 0);
        c.seed = j.unum("seed", 1); c.aad_len = j.unum("aad_len", 0); c.tag_len = j.num("tag_len", 16);
        c.pl = j.num("pl", 0); c.sh = j.unum("sh", 0);
        for (auto &p : j.at("pieces").a) c.pieces.push_back(p.unum());
        return c;
}

static bool run(const Case &c, pbt::Ctx &ctx)
{
        const ae::GcmFam *g = nullptr;
        for (auto &x : g_fams)
                if (x.label() == c.fam) g = &x;
        if (!g) { ctx.label("absent-family"); return true; }
        const std::string site = c.fam + (c.nt ? "/nt" : "") + (c.dec ? "/dec" : "/enc");
        auto failx = [&](const std::string &k, const std::string &m) { return ctx.fail(k + "|" + site, site + ": " + m); };
        if (!g->update[c.dec][c.nt] || !g->init || !g->finalize[c.dec]) { ctx.label("absent-entry"); return true; }
        uint64_t len = 0;
        for (auto p : c.pieces) len += p;

        std::vector<uint8_t> key = pbt::expandv(c.seed, g->bits / 8), iv = pbt::expandv(c.seed + 1, 12), aad = pbt::expandv(c.seed + 2, c.aad_len),
                             pt = pbt::expandv(c.seed + 3, len);
        ref::Aes ra(key.data(), g->bits);
        ref::GcmResult R = ref::gcm_crypt(ra, iv.data(), aad.data(), c.aad_len, pt.data(), len, false);
        const std::vector<uint8_t> &input = c.dec ? R.out : pt;
        const std::vector<uint8_t> &expect = c.dec ? pt : R.out;

        guard::Arena A;
        guard::FaultInfo fi;
        uint8_t *kd = A.alloc("key_data", sizeof(isal_gcm_key_data), 16, guard::END, 0x11);
        uint8_t *cd = A.alloc("context_data", sizeof(isal_gcm_context_data), 16, guard::END, 0x22);
        int rc = 0;
        if (!ae::gcm_prepare(*g, key.data(), kd, fi, &rc)) {
                A.describe(fi);
                return !failx("fault-pre", "fault in key precompute: " + fi.where);
        }
        A.set_readonly(kd);
        size_t dalign = c.nt ? 64 : 1;
        uint32_t sh = c.nt ? (c.sh & ~63u) : c.sh;
        uint8_t *in, *out;
        bool inplace = c.inplace && !c.nt;
        if (inplace) {
                out = in = A.alloc("inout", len, dalign, (guard::Place) c.pl, -1, sh);
                memcpy(in, input.data(), len);
        } else {
                in = A.alloc("in", len, dalign, (guard::Place) c.pl, -1, sh);
                memcpy(in, input.data(), len);
                A.set_readonly(in);
                out = A.alloc("out", len, dalign, (guard::Place) c.pl, 0x77, sh);
        }
        uint8_t *a = A.alloc("aad", c.aad_len, 1, guard::END);
        memcpy(a, aad.data(), c.aad_len);
        A.set_readonly(a);
        uint8_t *ivb = A.alloc("iv", 12, 1, guard::END);
        memcpy(ivb, iv.data(), 12);
        A.set_readonly(ivb);
        uint8_t *tag = A.alloc("tag", c.tag_len, 1, guard::END, 0x99);

        bool ok = guard::guarded_call(fi, [&] {
                if (g->api) rc = ((ae::gcm_init_ifn) g->init)(kd, cd, ivb, a, c.aad_len);
                else ((ae::gcm_init_fn) g->init)(kd, cd, ivb, a, c.aad_len);
        });
        if (!ok) {
                A.describe(fi);
                return !failx("fault-init", "fault in init: " + fi.where);
        }
        if (rc) return !failx("rc", "init returned " + std::to_string(rc));
        uint64_t off = 0;
        bool carried = false;
        int updates_with_carry = 0;
        for (size_t i = 0; i < c.pieces.size(); i++) {
                uint64_t n = c.pieces[i];
                void *fn = g->update[c.dec][c.nt];
                ok = guard::guarded_call(fi, [&] {
                        if (g->api) rc = ((ae::gcm_update_ifn) fn)(kd, cd, out + off, in + off, n);
                        else ((ae::gcm_update_fn) fn)(kd, cd, out + off, in + off, n);
                });
                if (!ok) {
                        A.describe(fi);
                        return !failx("fault-update", "fault in update " + std::to_string(i) + " (len " + std::to_string(n) + ", offset " + std::to_string(off) + "): " + fi.where);
                }
                if (rc) return !failx("rc", "update returned " + std::to_string(rc));
                // output of this update is judged as soon as it returns
                if (n && memcmp(out + off, expect.data() + off, n)) {
                        size_t k = 0;
                        while (out[off + k] == expect[off + k]) k++;
                        if (failx("update-output", "update " + std::to_string(i) + " (len " + std::to_string(n) + " at offset " + std::to_string(off) + ", carried partial " +
                                                           std::to_string(off % 16) + ") wrote wrong byte at +" + std::to_string(k)))
                                return false;
                }
                if (!inplace && off + n < len) {
                        // bytes beyond this update's range must still hold the prefill
                        // (cheap spot check of the next byte)
                        uint8_t want = (uint8_t) (0x77 + (off + n) * 131 + ((off + n) >> 8) * 7);
                        if (out[off + n] != want && failx("update-overrun", "update " + std::to_string(i) + " wrote past its len bytes")) return false;
                }
                if (off % 16) { carried = true; updates_with_carry++; }
                off += n;
        }
        ok = guard::guarded_call(fi, [&] {
                if (g->api) rc = ((ae::gcm_final_ifn) g->finalize[c.dec])(kd, cd, tag, c.tag_len);
                else ((ae::gcm_final_fn) g->finalize[c.dec])(kd, cd, tag, c.tag_len);
        });
        if (!ok) {
                A.describe(fi);
                return !failx("fault-finalize", "fault in finalize: " + fi.where);
        }
        if (rc) return !failx("rc", "finalize returned " + std::to_string(rc));
        std::string cn = A.check_canaries();
        if (!cn.empty() && failx("canary", cn)) return false;
        if (memcmp(tag, R.tag, c.tag_len))
                if (failx("tag", "streaming tag differs from reference: pieces=" + std::to_string(c.pieces.size()) + " len=" + std::to_string(len))) return false;

        // (b) the library's own one-shot call of the same family
        void *one = g->oneshot[c.dec][0];
        if (one) {
                uint8_t *o2 = A.alloc("oneshot-out", len, 1, guard::END, 0x31);
                uint8_t *t2 = A.alloc("oneshot-tag", c.tag_len, 1, guard::END, 0x32);
                uint8_t *i2 = A.alloc("oneshot-in", len, 1, guard::END);
                memcpy(i2, input.data(), len);
                ok = guard::guarded_call(fi, [&] {
                        if (g->api) rc = ((ae::gcm_oneshot_ifn) one)(kd, cd, o2, i2, len, ivb, a, c.aad_len, t2, c.tag_len);
                        else ((ae::gcm_oneshot_fn) one)(kd, cd, o2, i2, len, ivb, a, c.aad_len, t2, c.tag_len);
                });
                if (!ok) {
                        A.describe(fi);
                        return !failx("fault-oneshot", "fault in one-shot: " + fi.where);
                }
                if (len && memcmp(o2, out, len) && failx("stream-vs-oneshot", "streaming output differs from the one-shot output")) return false;
                if (memcmp(t2, tag, c.tag_len) && failx("stream-vs-oneshot-tag", "streaming tag differs from the one-shot tag")) return false;
        }
        ctx.label("fam=" + c.fam + (c.nt ? "/nt" : ""));
        ctx.label("pieces=" + std::to_string(c.pieces.size() > 8 ? 9 : c.pieces.size()));
        ctx.label("updates_with_carry", updates_with_carry);
        ctx.nontrivial = c.pieces.size() >= 2 && carried;
        return true;
}

int main(int argc, char **argv)
{
        pbt::Prop<Case> P;
        P.id = "C07";
        P.setup = [](pbt::Ctx &ctx) {
                std::string only = ctx.optstr("fam", "");
                for (auto &g : ae::gcm_families()) {
                        if (!only.empty() && g.label().find(only) == std::string::npos) continue;
                        if (!g.runnable) { ctx.notes.push_back("family skipped (host cannot execute it): " + g.label()); continue; }
                        g_fams.push_back(g);
                }
                if (g_fams.empty()) { fprintf(stderr, "HARNESS-ERROR: no GCM family available\n"); exit(3); }
        };
        P.gen = [](pbt::Ctx &ctx) {
                using namespace pbt;
                Case c;
                const ae::GcmFam &g = g_fams[rng<size_t>(0, g_fams.size() - 1)];
                c.fam = g.label();
                c.dec = coin();
                c.nt = g.update[0][1] ? coin(1, 4) : 0;
                c.seed = rng64(1, UINT64_MAX - 8);
                c.aad_len = ae::gen_aad_len();
                if (c.aad_len > 4096) c.aad_len = 4096;
                c.tag_len = pick<int>({ 16, 12, 8 });
                c.inplace = coin(1, 3);
                c.pl = weighted({ 2, 1 });
                c.sh = coin(1, 3) ? rng<uint32_t>(0, 127) : 0;
                int k = rng<int>(1, 12);
                uint64_t big = (uint64_t) ctx.optnum("bigpiece", 20000);
                for (int i = 0; i < k; i++) {
                        uint64_t n;
                        switch (weighted({ 2, 10, 3, 6, 4, 6, 2 })) {
                        case 0: n = 0; break;
                        case 1: n = rng<uint64_t>(1, 15); break;
                        case 2: n = 16; break;
                        case 3: n = rng<uint64_t>(17, 130); break;
                        case 4: n = 16 * rng<uint64_t>(1, 70); break;
                        case 5: n = rng<uint64_t>(131, 2100); break;
                        default: n = rng<uint64_t>(1, big); break;
                        }
                        if (c.nt && i != k - 1) n = (n + 63) / 64 * 64 % 4160; // non-final pieces: multiples of 64 (0 allowed)
                        c.pieces.push_back(n);
                }
                return c;
        };
        P.to_json = to_json;
        P.from_json = from_json;
        P.run = run;
        return pbt::main_(argc, argv, P);
}
