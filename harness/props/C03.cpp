// C03 - AES-XTS equals IEEE 1619 incl. ciphertext stealing; expanded-key forms agree; len < 16 touches nothing.
#include "../common/aes_engine.hpp"

using ae::xts_fn;
using ae::xts_ifn;
using ae::XtsFam;
static std::vector<XtsFam> g_fams;
using ae::xts_families;

struct Case {
        std::string fam;
        int dec = 0, expanded = 0, inplace = 0;
        uint64_t seed = 1, len = 16;
        int pl_in = 0, pl_out = 0, pl_k = 0, pl_tw = 0;
        uint32_t sh_in = 0, sh_out = 0, sh_k = 0, sh_tw = 0;
};
static J to_json(const Case &c)
{
        J j = J::obj();
        j.set("fam", c.fam).set("dec", c.dec).set("expanded", c.expanded).set("inplace", c.inplace).set("seed", (unsigned long long) c.seed).set("len", (unsigned long long) c.len);
        j.set("pl_in", c.pl_in).set("pl_out", c.pl_out).set("pl_k", c.pl_k).set("pl_tw", c.pl_tw);
        j.set("sh_in", c.sh_in).set("sh_out", c.sh_out).set("sh_k", c.sh_k).set("sh_tw", c.sh_tw);
        return j;
}
static Case from_json(const J &j)
{
        Case c;
        c.fam = j.at("fam").s;
        c.dec = j.num("dec", 0); c.expanded = j.num("expanded", 0); c.inplace = j.num("inplace", 0);
        c.seed = j.unum("seed", 1); c.len = j.unum("len", 16);
        c.pl_in = j.num("pl_in", 0); c.pl_out = j.num("pl_out", 0); c.pl_k = j.num("pl_k", 0); c.pl_tw = j.num("pl_tw", 0);
        c.sh_in = j.unum("sh_in", 0); c.sh_out = j.unum("sh_out", 0); c.sh_k = j.unum("sh_k", 0); c.sh_tw = j.unum("sh_tw", 0);
        return c;
}

static bool run(const Case &c, pbt::Ctx &ctx)
{
        const XtsFam *x = nullptr;
        for (auto &f : g_fams)
                if (f.label() == c.fam) x = &f;
        if (!x) { ctx.label("absent-family"); return true; }
        void *fn = x->fn[c.dec][c.expanded];
        if (!fn) { ctx.label("absent-entry"); return true; }
        const std::string site = c.fam + (c.dec ? "/dec" : "/enc") + (c.expanded ? "/expanded" : "/raw");
        auto failx = [&](const std::string &k, const std::string &m) { return ctx.fail(k + "|" + site, site + ": " + m); };

        size_t kl = x->bits / 8;
        std::vector<uint8_t> k1 = pbt::expandv(c.seed, kl), k2 = pbt::expandv(c.seed + 1, kl), tw = pbt::expandv(c.seed + 2, 16), pt = pbt::expandv(c.seed + 3, c.len);
        ref::Aes a1(k1.data(), x->bits), a2(k2.data(), x->bits);
        std::vector<uint8_t> ct(c.len);
        if (c.len >= 16) ref::xts_crypt(a2, a1, tw.data(), pt.data(), ct.data(), c.len, false);
        const std::vector<uint8_t> &input = c.dec ? ct : pt;
        const std::vector<uint8_t> &expect = c.dec ? pt : ct;

        std::vector<uint8_t> k1arg = k1, k2arg = k2;
        if (c.expanded) {
                k2arg = a2.enc_schedule();
                k1arg = c.dec ? a1.dec_schedule() : a1.enc_schedule();
        }
        guard::Arena A;
        guard::FaultInfo fi;
        uint8_t *k1b = A.alloc("key1", k1arg.size(), 1, (guard::Place) c.pl_k, -1, c.sh_k);
        uint8_t *k2b = A.alloc("key2", k2arg.size(), 1, (guard::Place) c.pl_k, -1, c.sh_k ^ 5);
        memcpy(k1b, k1arg.data(), k1arg.size());
        memcpy(k2b, k2arg.data(), k2arg.size());
        A.set_readonly(k1b);
        A.set_readonly(k2b);
        uint8_t *twb = A.alloc("tweak", 16, 1, (guard::Place) c.pl_tw, -1, c.sh_tw);
        memcpy(twb, tw.data(), 16);
        A.set_readonly(twb);
        uint8_t *in, *out;
        bool small = c.len < 16;
        if (c.inplace) {
                in = out = A.alloc("inout", c.len, 1, (guard::Place) c.pl_out, -1, c.sh_out);
                memcpy(in, input.data(), c.len);
                if (small) A.set_noaccess(in);
        } else {
                in = A.alloc("in", c.len, 1, (guard::Place) c.pl_in, -1, c.sh_in);
                memcpy(in, input.data(), c.len);
                out = A.alloc("out", c.len, 1, (guard::Place) c.pl_out, 0x6b, c.sh_out);
                if (small) { A.set_noaccess(in); A.set_noaccess(out); }
                else A.set_readonly(in);
        }
        int rc = 0;
        bool ok = guard::guarded_call(fi, [&] {
                if (x->api) rc = ((xts_ifn) fn)(k2b, k1b, twb, c.len, in, out);
                else ((xts_fn) fn)(k2b, k1b, twb, c.len, in, out);
        });
        if (!ok) {
                A.describe(fi);
                return !failx(small ? "fault-small" : "fault", "fault (len " + std::to_string(c.len) + "): " + fi.where);
        }
        ctx.label("fam=" + c.fam);
        if (small) {
                // no-op clause: nothing touched (buffers were inaccessible); the isal_ API additionally reports the length error
                if (x->api && rc != ISAL_CRYPTO_ERR_CIPH_LEN && failx("rc-small", "len<16 returned " + std::to_string(rc))) return false;
                ctx.label("len<16");
                ctx.nontrivial = false;
                return true;
        }
        if (rc) return !failx("rc", "valid call returned " + std::to_string(rc));
        std::string cn = A.check_canaries();
        if (!cn.empty() && failx("canary", cn)) return false;
        if (memcmp(out, expect.data(), c.len)) {
                size_t k = 0;
                while (out[k] == expect[k]) k++;
                if (failx("output", "output differs from IEEE 1619 reference at byte " + std::to_string(k) + " of " + std::to_string(c.len) + " (len%16=" +
                                            std::to_string(c.len % 16) + ", blocks%8=" + std::to_string(c.len / 16 % 8) + ")"))
                        return false;
        }
        // round trip through the library with the opposite raw-key entry of the same family
        void *inv = x->fn[!c.dec][0];
        if (inv) {
                uint8_t *mid = A.alloc("mid", c.len, 1, guard::END);
                memcpy(mid, out, c.len);
                uint8_t *back = A.alloc("back", c.len, 1, guard::END, 0x21);
                uint8_t *rk1 = A.alloc("rk1", kl, 1, guard::END), *rk2 = A.alloc("rk2", kl, 1, guard::END);
                memcpy(rk1, k1.data(), kl);
                memcpy(rk2, k2.data(), kl);
                ok = guard::guarded_call(fi, [&] {
                        if (x->api) rc = ((xts_ifn) inv)(rk2, rk1, twb, c.len, mid, back);
                        else ((xts_fn) inv)(rk2, rk1, twb, c.len, mid, back);
                });
                if (!ok) {
                        A.describe(fi);
                        return !failx("fault-roundtrip", "fault in inverse call: " + fi.where);
                }
                if (memcmp(back, input.data(), c.len) && failx("roundtrip", "decrypt(encrypt(x)) != x")) return false;
        }
        ctx.label(c.len % 16 ? "steal" : "whole-blocks");
        ctx.label(c.expanded ? "expanded" : "raw");
        ctx.nontrivial = (c.len % 16 != 0) || (c.len / 16 % 8 != 0);
        return true;
}

int main(int argc, char **argv)
{
        pbt::Prop<Case> P;
        P.id = "C03";
        P.setup = [](pbt::Ctx &ctx) {
                std::string only = ctx.optstr("fam", "");
                for (auto &g : xts_families()) {
                        if (!only.empty() && g.label().find(only) == std::string::npos) continue;
                        if (!g.runnable) { ctx.notes.push_back("family skipped (host cannot execute it): " + g.label()); continue; }
                        g_fams.push_back(g);
                }
                if (g_fams.empty()) { fprintf(stderr, "HARNESS-ERROR: no XTS family available\n"); exit(3); }
        };
        P.gen = [](pbt::Ctx &ctx) {
                using namespace pbt;
                Case c;
                const XtsFam &x = g_fams[rng<size_t>(0, g_fams.size() - 1)];
                c.fam = x.label();
                c.dec = coin();
                c.expanded = coin();
                c.seed = rng64(1, UINT64_MAX - 8);
                long huge = ctx.optnum("huge", 0);
                switch (weighted({ 3, 50, 8, 8, 6, 8, huge ? 1 : 0 })) {
                case 0: c.len = rng<uint64_t>(0, 15); break;
                case 1: c.len = rng<uint64_t>(16, 640); break;
                case 2: c.len = rng<uint64_t>(1008, 1056); break;
                case 3: c.len = rng<uint64_t>(4080, 4128); break;
                case 4: c.len = rng<uint64_t>(65536 - 17, 65536 + 17); break;
                case 5: c.len = rng<uint64_t>(641, 40000); break;
                default: c.len = (1 << 24) - rng<uint64_t>(0, 40); break;
                }
                c.inplace = coin(1, 3);
                c.pl_in = weighted({ 2, 1 }); c.pl_out = weighted({ 2, 1 }); c.pl_k = weighted({ 2, 1 }); c.pl_tw = weighted({ 2, 1 });
                c.sh_in = coin(1, 3) ? rng<uint32_t>(0, 63) : 0;
                c.sh_out = coin(1, 3) ? rng<uint32_t>(0, 63) : 0;
                c.sh_k = coin(1, 3) ? rng<uint32_t>(0, 63) : 0;
                c.sh_tw = coin(1, 3) ? rng<uint32_t>(0, 63) : 0;
                return c;
        };
        P.to_json = to_json;
        P.from_json = from_json;
        P.run = run;
        return pbt::main_(argc, argv, P);
}
