// C12 - run-time dispatch binds only to code the (virtual) CPU/OS can execute, entry points sharing one object bind to
//       the same family, and a binding, once made, does not change.
// The dispatchers' cpuid/xgetbv go through the ISAL_CRYPTO_VERIF hook (harness/common/vcpu.asm); the ISA classes that the
// code reachable from each target needs come from tools/isaclass.py (objdump + GNU as).
#include "../common/arena.hpp"
#include "../common/isal.hpp"
#include "../common/json.hpp"
#include "../common/pbt.hpp"
#include <map>
#include <set>

extern "C" {
extern uint64_t isal_vcpu_armed;
extern uint32_t isal_vcpu_leaf1[4], isal_vcpu_leaf7[4], isal_vcpu_xcr0[2];
extern uint64_t isal_vcpu_cpuid_calls, isal_vcpu_xgetbv_calls, isal_vcpu_xgetbv_ud, isal_vcpu_other_leaf;
}

enum Bit { SSE41 = 0, SSE42, OSXSAVE, AVX, AVX2, F, DQ, CD, BW, VL, SHA, VBMI2, GFNI, VAES, VPCLMUL, VNNI, BITALG, VPOPCNT, AVOTON, X_SSE, X_YMM, X_ZMM, NBITS };
static const char *bit_name[NBITS] = { "sse4_1", "sse4_2", "osxsave", "avx", "avx2", "avx512f", "avx512dq", "avx512cd", "avx512bw", "avx512vl", "sha", "avx512_vbmi2",
                                       "gfni", "vaes", "vpclmulqdq", "avx512_vnni", "avx512_bitalg", "avx512_vpopcntdq", "avoton_model", "xcr0_sse", "xcr0_ymm", "xcr0_zmm_opmask" };
#define B(m, b) (((m) >> (b)) & 1)

// Architectural consistency (Intel SDM): see DESIGN.md C12
static bool consistent(uint32_t m)
{
        if (B(m, SSE42) && !B(m, SSE41)) return false;
        if (B(m, AVX) && !B(m, SSE42)) return false;
        if (B(m, AVX2) && !B(m, AVX)) return false;
        if (B(m, F) && !B(m, AVX2)) return false;
        for (int b : { DQ, CD, BW, VL, VBMI2, VNNI, BITALG, VPOPCNT })
                if (B(m, b) && !B(m, F)) return false;
        if ((B(m, VBMI2) || B(m, BITALG)) && !B(m, BW)) return false;
        if ((B(m, VAES) || B(m, VPCLMUL)) && !B(m, AVX)) return false;
        if (!B(m, OSXSAVE) && (B(m, X_SSE) || B(m, X_YMM) || B(m, X_ZMM))) return false; // XCR0 not readable: represent as all-zero
        if (B(m, X_YMM) && !(B(m, X_SSE) && B(m, AVX))) return false;
        if (B(m, X_ZMM) && !(B(m, X_YMM) && B(m, F))) return false;
        if (B(m, AVOTON) && (B(m, AVX) || B(m, SHA) || !B(m, SSE42))) return false;
        return true;
}
static void arm(uint32_t m)
{
        uint32_t c1 = 0, b7 = 0, c7 = 0;
        // bits the dispatchers never test but that every x86-64 CPU with these features reports
        c1 |= 1u << 0 | 1u << 9 | 1u << 23 | 1u << 25 | 1u << 1; // sse3 ssse3 popcnt aesni pclmul (AES entry points require AES-NI by documentation)
        if (B(m, SSE41)) c1 |= 1u << 19;
        if (B(m, SSE42)) c1 |= 1u << 20;
        if (B(m, OSXSAVE)) c1 |= 1u << 27 | 1u << 26;
        if (B(m, AVX)) c1 |= 1u << 28;
        if (B(m, AVX2)) b7 |= 1u << 5 | 1u << 3 | 1u << 8; // avx2 + bmi1 + bmi2
        if (B(m, F)) b7 |= 1u << 16;
        if (B(m, DQ)) b7 |= 1u << 17;
        if (B(m, CD)) b7 |= 1u << 28;
        if (B(m, BW)) b7 |= 1u << 30;
        if (B(m, VL)) b7 |= 1u << 31;
        if (B(m, SHA)) b7 |= 1u << 29;
        if (B(m, VBMI2)) c7 |= 1u << 6;
        if (B(m, GFNI)) c7 |= 1u << 8;
        if (B(m, VAES)) c7 |= 1u << 9;
        if (B(m, VPCLMUL)) c7 |= 1u << 10;
        if (B(m, VNNI)) c7 |= 1u << 11;
        if (B(m, BITALG)) c7 |= 1u << 12;
        if (B(m, VPOPCNT)) c7 |= 1u << 14;
        isal_vcpu_leaf1[0] = B(m, AVOTON) ? 0x000406d8 : 0x000806f8;
        isal_vcpu_leaf1[1] = 0;
        isal_vcpu_leaf1[2] = c1;
        isal_vcpu_leaf1[3] = 0x078bfbff;
        isal_vcpu_leaf7[0] = 0;
        isal_vcpu_leaf7[1] = b7;
        isal_vcpu_leaf7[2] = c7;
        isal_vcpu_leaf7[3] = 0;
        isal_vcpu_xcr0[0] = 1u | (B(m, X_SSE) ? 2u : 0) | (B(m, X_YMM) ? 4u : 0) | (B(m, X_ZMM) ? 0xe0u : 0);
        isal_vcpu_xcr0[1] = 0;
        isal_vcpu_cpuid_calls = isal_vcpu_xgetbv_calls = isal_vcpu_xgetbv_ud = isal_vcpu_other_leaf = 0;
        isal_vcpu_armed = 1;
}
static void disarm() { isal_vcpu_armed = 0; }

// ---- what a target needs / what an assignment offers
static const char *judged[] = { "SSE4_1", "SSE4_2", "AVX", "AVX2", "AVX512F", "AVX512DQ", "AVX512CD", "AVX512BW", "AVX512VL", "AVX512_VBMI2", "GFNI", "VAES", "VPCLMULQDQ",
                                "AVX512_VNNI", "AVX512_BITALG", "AVX512_VPOPCNTDQ", "SHA" };
static bool offered(uint32_t m, const std::string &cls)
{
        bool ymm = B(m, OSXSAVE) && B(m, X_SSE) && B(m, X_YMM), zmm = ymm && B(m, X_ZMM);
        if (cls == "SSE4_1") return B(m, SSE41);
        if (cls == "SSE4_2") return B(m, SSE42);
        if (cls == "SHA") return B(m, SHA);
        if (cls == "GFNI") return B(m, GFNI);
        if (cls == "AVX") return B(m, AVX) && ymm;
        if (cls == "AVX2") return B(m, AVX2) && ymm;
        if (cls == "VAES") return B(m, VAES) && ymm;
        if (cls == "VPCLMULQDQ") return B(m, VPCLMUL) && ymm;
        if (cls == "AVX512F") return B(m, F) && zmm;
        if (cls == "AVX512DQ") return B(m, DQ) && zmm;
        if (cls == "AVX512CD") return B(m, CD) && zmm;
        if (cls == "AVX512BW") return B(m, BW) && zmm;
        if (cls == "AVX512VL") return B(m, VL) && zmm;
        if (cls == "AVX512_VBMI2") return B(m, VBMI2) && zmm;
        if (cls == "AVX512_VNNI") return B(m, VNNI) && zmm;
        if (cls == "AVX512_BITALG") return B(m, BITALG) && zmm;
        if (cls == "AVX512_VPOPCNTDQ") return B(m, VPOPCNT) && zmm;
        return true;
}

struct EntryInfo {
        std::string name;   // dispatcher name, e.g. _sha1_ctx_mgr_submit
        void **dispatched;
        void *mbinit;
        void (*dispatch_init)(void);
        std::string group;  // entries that operate on one shared object
        std::set<std::string> lowest_needs; // needs of the target bound under "no feature at all" (documented minimum of entries without a base implementation)
};
static std::vector<EntryInfo> g_entries;
static std::map<void *, std::string> g_symname;
static std::map<std::string, std::set<std::string>> g_needs; // target -> judged classes
static std::map<std::string, std::vector<std::string>> g_unobserved;

static std::string group_of(const std::string &e)
{
        for (const char *a : { "sha1", "sha256", "sha512", "md5", "sm3" })
                if (e.find(std::string("_") + a + "_ctx_mgr_") == 0) return std::string(a) + "_ctx_mgr";
        if (e.find("_aes_gcm_") == 0) return e.find("_256") != std::string::npos ? "gcm256" : "gcm128";
        if (e.find("_mh_sha1_murmur3") == 0) return "mh_sha1_murmur3";
        if (e.find("_mh_sha256") == 0) return "mh_sha256";
        if (e.find("_mh_sha1") == 0) return "mh_sha1";
        return "";
}
static std::string family_of(const std::string &entry, const std::string &target)
{
        std::string e = entry, t = target;
        auto strip_nt = [](std::string &s) { if (s.size() > 3 && s.compare(s.size() - 3, 3, "_nt") == 0) s.resize(s.size() - 3); };
        strip_nt(e);
        strip_nt(t);
        if (t.compare(0, e.size(), e) == 0 && t.size() > e.size()) return t.substr(e.size() + 1);
        return "?" + target;
}
static std::string target_name(void *p)
{
        auto it = g_symname.find(p);
        return it == g_symname.end() ? std::string() : it->second;
}
static std::string resolve(EntryInfo &e)
{
        *e.dispatched = e.mbinit;
        e.dispatch_init();
        return target_name(*e.dispatched);
}

struct Case {
        uint32_t mask = 0;
};
static J to_json(const Case &c)
{
        J j = J::obj();
        j.set("mask", c.mask);
        J on = J::arr();
        for (int b = 0; b < NBITS; b++)
                if (B(c.mask, b)) on.push(bit_name[b]);
        j.set("features", on);
        return j;
}
static Case from_json(const J &j)
{
        Case c;
        c.mask = (uint32_t) j.unum("mask", 0);
        return c;
}

static bool run(const Case &c, pbt::Ctx &ctx)
{
        uint32_t m = c.mask;
        if (!consistent(m)) { ctx.label("inconsistent-skipped"); return true; }
        std::map<std::string, std::string> group_family, group_first;
        bool ok = true;
        for (auto &e : g_entries) {
                arm(m);
                std::string t = resolve(e);
                uint64_t ud = isal_vcpu_xgetbv_ud;
                disarm();
                if (t.empty()) {
                        if (ctx.fail("unknown-target|" + e.name, e.name + ": bound to an address that is no exported symbol")) return false;
                        continue;
                }
                if (ud && ctx.fail("xgetbv-without-osxsave|" + e.name, e.name + ": resolver executed xgetbv although the CPU reports OSXSAVE=0 (would #UD)")) return false;
                auto nit = g_needs.find(t);
                if (nit == g_needs.end()) { ctx.label("target-without-classification"); continue; }
                for (auto &cls : nit->second) {
                        if (offered(m, cls)) continue;
                        // documented minimum of entries that have no portable base implementation (AES: "requires SSE4.1 and AES-NI")
                        if (e.lowest_needs.count(cls) && cls == "SSE4_1" && g_needs[t] == e.lowest_needs) continue;
                        std::string feats;
                        for (int b = 0; b < NBITS; b++)
                                if (B(m, b)) feats += std::string(bit_name[b]) + " ";
                        if (ctx.fail("unexecutable|" + e.name + "|" + t + "|" + cls, e.name + " binds to " + t + " which needs " + cls + " but the CPU/OS offers only: " + feats)) return false;
                        ok = ok && true;
                }
                std::string g = e.group;
                if (!g.empty()) {
                        std::string fam = family_of(e.name, t);
                        if (!group_family.count(g)) { group_family[g] = fam; group_first[g] = e.name + "->" + t; }
                        else if (group_family[g] != fam)
                                if (ctx.fail("mixed-families|" + g, "entry points of one object bind to different families: " + group_first[g] + " but " + e.name + "->" + t)) return false;
                }
                // binding stability: resolving again under a different CPU must not be possible through the entry itself: the pointer no longer
                // points at the first-call stub, so a later call goes straight to the target
                if (*e.dispatched == e.mbinit && ctx.fail("not-bound|" + e.name, e.name + ": dispatch pointer still points at the first-call stub after resolution")) return false;
        }
        // a bound pointer must survive a later call under a different CPU: execute the simplest entries for real (host-executable targets only)
        for (auto &e : g_entries) {
                if (e.name.find("_ctx_mgr_init") == std::string::npos) continue;
                arm(m);
                std::string t = resolve(e);
                disarm();
                std::string fam = family_of(e.name, t);
                if (!isal::host_can_run(fam)) continue;
                void *before = *e.dispatched;
                arm(m ^ ((1u << AVX2) | (1u << SSE42) | (1u << F)));
                uint64_t calls0 = isal_vcpu_cpuid_calls;
                alignas(64) static uint8_t mgr[1 << 16];
                void *entry = isal::sym(e.name);
                if (entry) ((void (*)(void *)) entry)(mgr);
                uint64_t calls1 = isal_vcpu_cpuid_calls;
                disarm();
                if ((*e.dispatched != before || calls1 != calls0) && ctx.fail("rebinding|" + e.name, e.name + ": a later call re-resolved / changed the binding")) return false;
        }
        bool partial = (B(m, F) && !(B(m, DQ) && B(m, CD) && B(m, BW) && B(m, VL))) ||
                       ((B(m, VBMI2) || B(m, GFNI) || B(m, VAES) || B(m, VPCLMUL) || B(m, VNNI) || B(m, BITALG) || B(m, VPOPCNT)) &&
                        !(B(m, VBMI2) && B(m, GFNI) && B(m, VAES) && B(m, VPCLMUL) && B(m, VNNI) && B(m, BITALG) && B(m, VPOPCNT))) ||
                       (B(m, AVX) && !B(m, X_YMM)) || (B(m, F) && !B(m, X_ZMM)) || (B(m, SHA) && !B(m, AVX)) || B(m, AVOTON);
        ctx.nontrivial = partial;
        ctx.label(partial ? "partial-feature-groups" : "complete-feature-groups");
        ctx.label("entries_resolved", g_entries.size());
        return ok;
}

// real-product style profiles
static std::vector<uint32_t> profiles()
{
        auto mk = [](std::initializer_list<int> b) { uint32_t m = 0; for (int x : b) m |= 1u << x; return m; };
        uint32_t wsm = mk({ SSE41, SSE42 });
        uint32_t snb = wsm | mk({ OSXSAVE, AVX, X_SSE, X_YMM });
        uint32_t hsw = snb | mk({ AVX2 });
        uint32_t skx = hsw | mk({ F, DQ, CD, BW, VL, X_ZMM });
        uint32_t icl = skx | mk({ VBMI2, GFNI, VAES, VPCLMUL, VNNI, BITALG, VPOPCNT, SHA });
        uint32_t glm = wsm | mk({ SHA });
        uint32_t avt = wsm | mk({ AVOTON });
        uint32_t zen1 = hsw | mk({ SHA });
        uint32_t zen3 = zen1 | mk({ VAES, VPCLMUL });
        uint32_t adl = zen3 | mk({ GFNI });
        uint32_t knl = hsw | mk({ F, CD, X_ZMM });
        uint32_t hsw_noos = hsw & ~mk({ OSXSAVE, X_SSE, X_YMM });
        uint32_t hsw_noymm = hsw & ~mk({ X_YMM });
        uint32_t icl_nozmm = icl & ~mk({ X_ZMM });
        uint32_t core2 = mk({ SSE41 });
        return { 0u, core2, wsm, snb, hsw, skx, icl, glm, avt, zen1, zen3, adl, knl, hsw_noos, hsw_noymm, icl_nozmm, wsm | mk({ OSXSAVE, X_SSE }) };
}
static std::vector<uint32_t> g_pool; // quick-tier pool: profiles +- one bit (consistent ones)
static uint64_t g_enum_next = 0, g_enum_stride = 1;
static bool g_exhaustive = false;

int main(int argc, char **argv)
{
        pbt::Prop<Case> P;
        P.id = "C12";
        P.setup = [](pbt::Ctx &ctx) {
                std::string path = ctx.optstr("isaclass", "");
                if (path.empty()) { fprintf(stderr, "HARNESS-ERROR: C12 needs --opt isaclass=<file>\n"); exit(3); }
                J ic = J::parse_file(path);
                std::set<std::string> jset(judged, judged + sizeof(judged) / sizeof(judged[0]));
                for (auto &kv : ic.at("symbols").o) {
                        std::set<std::string> s;
                        for (auto &c : kv.second.at("classes").a) {
                                if (jset.count(c.s)) s.insert(c.s);
                                else g_unobserved[kv.first].push_back(c.s);
                        }
                        g_needs[kv.first] = s;
                }
                for (size_t i = 0; i < isal_symtab_n; i++)
                        if (isal_symtab[i].is_func) g_symname.emplace(isal_symtab[i].addr, isal_symtab[i].name);
                for (size_t i = 0; i < isal_symtab_n; i++) {
                        std::string n = isal_symtab[i].name;
                        const std::string sfx = "_dispatched";
                        if (n.size() <= sfx.size() || n.compare(n.size() - sfx.size(), sfx.size(), sfx)) continue;
                        EntryInfo e;
                        e.name = n.substr(0, n.size() - sfx.size());
                        e.dispatched = (void **) isal_symtab[i].addr;
                        e.mbinit = isal::sym(e.name + "_mbinit");
                        e.dispatch_init = (void (*)(void)) isal::sym(e.name + "_dispatch_init");
                        if (!e.mbinit || !e.dispatch_init) continue;
                        e.group = group_of(e.name);
                        g_entries.push_back(e);
                }
                if (g_entries.empty()) { fprintf(stderr, "HARNESS-ERROR: hook symbols (<entry>_dispatched) not found: is the library built with ISAL_CRYPTO_VERIF?\n"); exit(3); }
                // documented minimum: what an entry binds to when the CPU offers nothing
                for (auto &e : g_entries) {
                        arm(0);
                        std::string t = resolve(e);
                        disarm();
                        if (g_needs.count(t)) e.lowest_needs = g_needs[t];
                }
                ctx.notes.push_back("dispatched entry points found: " + std::to_string(g_entries.size()));
                std::set<std::string> un;
                for (auto &kv : g_unobserved)
                        for (auto &c : kv.second) un.insert(c);
                std::string u;
                for (auto &c : un) u += c + " ";
                ctx.notes.push_back("instruction classes the dispatchers cannot observe (reported, not judged): " + u);
                for (uint32_t p : profiles()) {
                        if (consistent(p)) g_pool.push_back(p);
                        for (int b = 0; b < NBITS; b++)
                                if (consistent(p ^ (1u << b))) g_pool.push_back(p ^ (1u << b));
                }
                g_exhaustive = ctx.optnum("exhaustive", 0) != 0;
                g_enum_next = (uint64_t) ctx.optnum("worker", 0);
                g_enum_stride = (uint64_t) ctx.optnum("workers", 1);
        };
        P.gen = [](pbt::Ctx &ctx) {
                using namespace pbt;
                Case c;
                if (g_exhaustive) {
                        // complete enumeration of the raw 22-bit space, split over the workers; inconsistent assignments are skipped in run()
                        while (g_enum_next < (1ull << NBITS) && !consistent((uint32_t) g_enum_next)) g_enum_next += g_enum_stride;
                        if (g_enum_next < (1ull << NBITS)) { c.mask = (uint32_t) g_enum_next; ctx.label("enumerated-consistent-assignments"); }
                        else { c.mask = 0; ctx.label("filler-after-enumeration-finished"); }
                        g_enum_next += g_enum_stride;
                        return c;
                }
                if (coin(1, 3)) { c.mask = g_pool[rng<size_t>(0, g_pool.size() - 1)]; return c; }
                // random consistent assignment by construction
                uint32_t m = 0;
                auto set = [&](int b, bool cond, int num = 1, int den = 2) { if (cond && coin(num, den)) m |= 1u << b; };
                set(SSE41, true, 7, 8);
                set(SSE42, B(m, SSE41), 7, 8);
                set(OSXSAVE, true, 5, 6);
                set(AVX, B(m, SSE42), 5, 6);
                set(AVX2, B(m, AVX), 4, 5);
                set(F, B(m, AVX2), 3, 4);
                for (int b : { DQ, CD, BW, VL, VNNI, VPOPCNT }) set(b, B(m, F), 4, 5);
                for (int b : { VBMI2, BITALG }) set(b, B(m, BW), 4, 5);
                set(GFNI, true, 1, 2);
                for (int b : { VAES, VPCLMUL }) set(b, B(m, AVX), 2, 3);
                set(SHA, true, 1, 2);
                set(X_SSE, B(m, OSXSAVE), 9, 10);
                set(X_YMM, B(m, X_SSE) && B(m, AVX), 5, 6);
                set(X_ZMM, B(m, X_YMM) && B(m, F), 5, 6);
                set(AVOTON, !B(m, AVX) && !B(m, SHA) && B(m, SSE42), 1, 4);
                c.mask = m;
                (void) ctx;
                return c;
        };
        P.to_json = to_json;
        P.from_json = from_json;
        P.run = run;
        return pbt::main_(argc, argv, P);
}
