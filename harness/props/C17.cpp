// C17 - FIPS self tests run exactly once under any interleaving; nobody passes early; everybody sees the same verdict;
//       nobody waits forever.
// Engine: a deterministic instruction-level scheduler.  The logical threads are contexts inside ONE OS thread; the x86
// trap flag makes every instruction of the code under test raise SIGTRAP, and the handler installs the context of the
// thread the generated schedule names next.  The harness therefore owns the interleaving at instruction granularity
// (sequential consistency).  The real library code runs: isal_self_tests() / isal_sha1_ctx_mgr_init() ->
// asm_check_self_tests_status (load, lock cmpxchg, spin) -> _aes_self_tests/_sha_self_tests (link-time wrapped stubs with
// a generated outcome and a generated number of yield points) -> asm_set_self_tests_status.
// Second engine (mode 3, "parallel"): the same first calls made by real OS threads released together on different cores,
// many rounds per case with generated release skews.  The single-step scheduler interleaves whole instructions, so it
// cannot tell an atomic read-modify-write from a non-atomic one; only truly simultaneous execution can.
#include "../common/isal.hpp"
#include "../common/json.hpp"
#include "../common/pbt.hpp"
#include "../common/fips_status.hpp"
#include <atomic>
#include <chrono>
#include <csignal>
#include <pthread.h>
#include <sys/mman.h>
#include <thread>
#include <ucontext.h>
#include <x86intrin.h>

extern "C" {
int asm_check_self_tests_status(void);
void asm_set_self_tests_status(int);
void __real__sha1_ctx_mgr_init(void *);
}

static const int MAXT = 6;
struct LT {
        gregset_t gregs;
        struct _libc_fpstate fp;
        uint8_t *stack = nullptr;
        volatile int done = 0;
        volatile int kind = 0; // 0: isal_self_tests()   1: isal_sha1_ctx_mgr_init(mgr)
        volatile int ret1 = -99, ret2 = -99;
        volatile int tests_done_at_ret1 = -1, published_at_ret1 = -1;
        volatile uint64_t step_at_ret1 = 0;
        bool finished = false;
        bool in_check = false;
};
static LT T[MAXT];
static int g_n = 0, g_cur = -1;
static gregset_t g_main_gregs;
static struct _libc_fpstate g_main_fp;
static volatile uint64_t g_steps = 0;
static uint64_t g_step_bound = 0;
static bool g_bound_hit = false;

// ---- wrapped internals (outcome + yield points are part of the generated case)
static volatile int g_outcome_fail = 0, g_yield = 0;
static volatile int g_aes_entries = 0, g_sha_entries = 0, g_tests_done = 0, g_work_before_done = 0, g_runner = -1;
static volatile uint64_t g_sink = 0;
// The wrappers run the REAL self-test bodies (so that anything those bodies do to the protocol state is part of the
// history), then the generated yield points, and overlay the generated outcome.  Under the single-step engine the real
// body executes as one atomic scheduling step with the trap flag off (tens of thousands of instructions otherwise).
extern "C" int __real__aes_self_tests(void);
extern "C" int __real__sha_self_tests(void);
static volatile int g_single_step = 0, g_notrace = 0, g_real_bodies = 1;
static thread_local int t_in_body = 0;
static int call_body(int (*f)(void))
{
        if (!g_real_bodies) return 0;
        t_in_body = 1;
        int r;
        if (g_single_step) {
                g_notrace = 1;
                __asm__ volatile("lea -128(%%rsp), %%rsp\n\tpushfq\n\tandq $~0x100, (%%rsp)\n\tpopfq\n\tlea 128(%%rsp), %%rsp" ::: "memory", "cc");
                r = f();
                g_notrace = 0;
                __asm__ volatile("lea -128(%%rsp), %%rsp\n\tpushfq\n\torq $0x100, (%%rsp)\n\tpopfq\n\tlea 128(%%rsp), %%rsp" ::: "memory", "cc");
        } else {
                r = f();
        }
        t_in_body = 0;
        return r;
}
extern "C" int __wrap__aes_self_tests(void)
{
        __atomic_fetch_add(&g_aes_entries, 1, __ATOMIC_SEQ_CST);
        g_runner = g_cur;
        int r = call_body(__real__aes_self_tests);
        for (int i = 0; i < g_yield; i++) g_sink++;
        return r | ((g_outcome_fail & 1) ? 1 : 0); // the AES group reports a failure as 1
}
extern "C" int __wrap__sha_self_tests(void)
{
        __atomic_fetch_add(&g_sha_entries, 1, __ATOMIC_SEQ_CST);
        int r = call_body(__real__sha_self_tests);
        for (int i = 0; i < g_yield; i++) g_sink++;
        g_tests_done = 1;
        return (g_outcome_fail & 2) ? -1 : r; // the SHA group reports a failure as -1 (fips/sha_self_tests.c)
}
extern "C" void __wrap__sha1_ctx_mgr_init(void *mgr)
{
        if (t_in_body) { __real__sha1_ctx_mgr_init(mgr); return; } // the SHA self tests' own manager
        // "cryptographic work" of the cheap approved entry point: must not start before the self tests finished and passed
        if (!g_tests_done || g_outcome_fail) __atomic_fetch_add(&g_work_before_done, 1, __ATOMIC_SEQ_CST);
        (void) mgr;
}

// ---- the second implementation of the protocol: fips/self_tests_generic.c (C11 atomics; used by the aarch64 and base-alias builds).  vcheck
// compiles it from the tree with -DFIPS_MODE and renames its isal_self_tests / its function-local status word (objcopy), so both
// implementations live in one binary and run under the same engines and the same oracle.  Weak: absent if the file could not be prepared.
extern "C" int c17g_isal_self_tests(void) __attribute__((weak));
extern "C" int c17g_status __attribute__((weak));
static volatile int g_impl = 0; // 0 = x86 (asm_check/asm_set + self_tests.c), 1 = generic
static bool generic_available() { return &c17g_isal_self_tests != nullptr && &c17g_status != nullptr; }
extern "C" int __wrap_usleep(unsigned) // the generic waiting loop sleeps: a voluntary yield point for the scheduler
{
        __asm__ volatile("pause");
        return 0;
}
static volatile uint32_t *status_ptr() { return g_impl ? (volatile uint32_t *) &c17g_status : fips::status_ptr(); }
static void set_state(uint32_t v)
{
        if (g_impl) { *(volatile uint32_t *) &c17g_status = v; __sync_synchronize(); }
        else fips::set_state(v);
}
static int first_call(int kind, void *mgr)
{
        if (g_impl) return c17g_isal_self_tests();
        return kind == 0 ? isal_self_tests() : isal_sha1_ctx_mgr_init((ISAL_SHA1_HASH_CTX_MGR *) mgr);
}
static int later_call() { return g_impl ? c17g_isal_self_tests() : isal_self_tests(); }

static uint8_t g_mgr[MAXT][1 << 12] __attribute__((aligned(64)));
extern "C" __attribute__((noinline, used)) void c17_thread_entry(long i)
{
        int r = first_call(T[i].kind, g_mgr[i]);
        T[i].ret1 = r;
        T[i].tests_done_at_ret1 = g_tests_done;
        T[i].published_at_ret1 = (*status_ptr() == 0 || *status_ptr() == 1) ? 1 : 0;
        T[i].step_at_ret1 = g_steps;
        T[i].ret2 = later_call();
        T[i].done = 1;
        for (;;) __asm__ volatile("pause");
}

// ---- the schedule
struct Case {
        int n = 2;
        int fail = 0, yield = 0;
        int mode = 0; // 0 = burst bytes, 1 = preemption list (run-to-yield otherwise), 2 = same, targets are "k-th other live thread"
        std::vector<int> kinds;
        std::vector<uint8_t> bytes;                 // mode 0: (thread choice, burst length) per decision
        std::vector<std::pair<uint32_t, int>> pre;  // mode 1: (global step index, thread to switch to)
        int impl = 0;                               // 0 = x86 implementation of the protocol, 1 = fips/self_tests_generic.c
        int rounds = 0;                             // mode 3: number of simultaneous-first-call rounds
        std::vector<int> skew;                      // mode 3: per-thread release delay (pause iterations), rotated every round
};
static const Case *g_case = nullptr;
static size_t g_sched_pos = 0;
static int g_burst_left = 0;
static uintptr_t g_chk_lo = 0, g_chk_hi = 0; // code range of the check/claim step of the selected implementation
static int g_max_in_check = 0;
static bool g_spin_before_publish = false;

static int next_alive(int from)
{
        for (int k = 1; k <= g_n; k++) {
                int t = (from + k) % g_n;
                if (!T[t].finished) return t;
        }
        return -1;
}
static int pick_next(bool cur_yielded)
{
        int alive = 0;
        for (int i = 0; i < g_n; i++) alive += !T[i].finished;
        if (!alive) return -1;
        const Case &c = *g_case;
        if (c.mode == 0) {
                if (g_burst_left > 0 && g_cur >= 0 && !T[g_cur].finished) { g_burst_left--; return g_cur; }
                if (g_sched_pos < c.bytes.size()) {
                        uint8_t b = c.bytes[g_sched_pos++];
                        int k = (b & 7) % alive, t = -1;
                        for (int i = 0; i < g_n; i++)
                                if (!T[i].finished && k-- == 0) { t = i; break; }
                        g_burst_left = (b >> 3) & 15;
                        return t;
                }
                return next_alive(g_cur < 0 ? g_n - 1 : g_cur); // fair round-robin tail
        }
        // mode 1: run the current thread until it yields (pause) or finishes, except at the listed preemption points
        for (auto &p : c.pre)
                if (p.first == g_steps) {
                        if (c.mode == 2) {
                                // k-th live thread other than the running one
                                int k = p.second, t = g_cur;
                                for (int step = 0; step <= k; step++) {
                                        int nx = next_alive(t < 0 ? g_n - 1 : t);
                                        if (nx < 0 || nx == g_cur) break;
                                        t = nx;
                                }
                                if (t >= 0 && t != g_cur && !T[t].finished) return t;
                                continue;
                        }
                        int t = p.second % g_n;
                        if (!T[t].finished) return t;
                }
        if (g_cur >= 0 && !T[g_cur].finished && !cur_yielded) return g_cur;
        return next_alive(g_cur < 0 ? g_n - 1 : g_cur);
}

static void on_trap(int, siginfo_t *, void *uc_)
{
        ucontext_t *uc = (ucontext_t *) uc_;
        if (g_cur >= 0 && g_notrace) {
                // the running logical thread is about to execute a real self-test body: let it run untraced (one atomic step)
                uc->uc_mcontext.gregs[REG_EFL] &= ~0x100;
                return;
        }
        if (g_cur < 0) {
                memcpy(g_main_gregs, uc->uc_mcontext.gregs, sizeof(gregset_t));
                memcpy(&g_main_fp, uc->uc_mcontext.fpregs, sizeof g_main_fp);
                for (int i = 0; i < g_n; i++) {
                        memcpy(T[i].gregs, uc->uc_mcontext.gregs, sizeof(gregset_t));
                        memcpy(&T[i].fp, uc->uc_mcontext.fpregs, sizeof T[i].fp);
                        uintptr_t sp = ((uintptr_t) T[i].stack + (1 << 16) - 64) & ~(uintptr_t) 15;
                        sp -= 8;
                        *(uint64_t *) sp = 0;
                        T[i].gregs[REG_RSP] = sp;
                        T[i].gregs[REG_RIP] = (greg_t) &c17_thread_entry;
                        T[i].gregs[REG_RDI] = i;
                        T[i].gregs[REG_EFL] = (T[i].gregs[REG_EFL] & ~0x400) | 0x100;
                }
        } else {
                memcpy(T[g_cur].gregs, uc->uc_mcontext.gregs, sizeof(gregset_t));
                memcpy(&T[g_cur].fp, uc->uc_mcontext.fpregs, sizeof T[g_cur].fp);
                g_steps++;
                if (T[g_cur].done) T[g_cur].finished = true;
        }
        bool yielded = false;
        if (g_cur >= 0) {
                uintptr_t rip = T[g_cur].gregs[REG_RIP];
                const uint8_t *ip = (const uint8_t *) rip;
                if (ip[0] == 0xf3 && ip[1] == 0x90) yielded = true; // about to execute pause: a voluntary yield point
                bool inside = rip >= g_chk_lo && rip < g_chk_hi;
                T[g_cur].in_check = inside;
                int cnt = 0;
                for (int i = 0; i < g_n; i++) cnt += T[i].in_check && !T[i].finished;
                if (cnt > g_max_in_check) g_max_in_check = cnt;
                if ((inside || g_impl) && yielded && !(*status_ptr() == 0 || *status_ptr() == 1)) g_spin_before_publish = true;
        }
        int nxt = g_steps >= g_step_bound ? -1 : pick_next(yielded);
        if (g_steps >= g_step_bound) g_bound_hit = true;
        if (nxt < 0) {
                // everybody finished (or the step bound was hit): back to the main context, trap flag off
                memcpy(uc->uc_mcontext.gregs, g_main_gregs, sizeof(gregset_t));
                memcpy(uc->uc_mcontext.fpregs, &g_main_fp, sizeof g_main_fp);
                uc->uc_mcontext.gregs[REG_EFL] &= ~0x100;
                g_cur = -2;
                return;
        }
        g_cur = nxt;
        memcpy(uc->uc_mcontext.gregs, T[nxt].gregs, sizeof(gregset_t));
        memcpy(uc->uc_mcontext.fpregs, &T[nxt].fp, sizeof T[nxt].fp);
        uc->uc_mcontext.gregs[REG_EFL] |= 0x100;
}

static J to_json(const Case &c)
{
        J j = J::obj();
        j.set("n", c.n).set("fail", c.fail).set("yield", c.yield).set("mode", c.mode);
        if (c.impl) j.set("impl", c.impl);
        J k = J::arr();
        for (int x : c.kinds) k.push(J(x));
        j.set("kinds", k);
        J b = J::arr();
        for (auto x : c.bytes) b.push(J((int) x));
        j.set("bytes", b);
        J p = J::arr();
        for (auto &x : c.pre) { J e = J::arr(); e.push(J(x.first)); e.push(J(x.second)); p.push(e); }
        j.set("pre", p);
        if (c.mode == 3) {
                j.set("rounds", c.rounds);
                J sk = J::arr();
                for (int x : c.skew) sk.push(J(x));
                j.set("skew", sk);
        }
        return j;
}
static Case from_json(const J &j)
{
        Case c;
        c.n = j.num("n", 2); c.fail = j.num("fail", 0); c.yield = j.num("yield", 0); c.mode = j.num("mode", 0); c.impl = j.num("impl", 0);
        for (auto &x : j.at("kinds").a) c.kinds.push_back((int) x.num());
        for (auto &x : j.at("bytes").a) c.bytes.push_back((uint8_t) x.num());
        for (auto &x : j.at("pre").a) c.pre.emplace_back((uint32_t) x.at((size_t) 0).unum(), (int) x.at((size_t) 1).num());
        if (c.mode == 3) {
                c.rounds = j.num("rounds", 1);
                for (auto &x : j.at("skew").a) c.skew.push_back((int) x.num());
        }
        return c;
}

// ---- mode 3: real threads on real cores
struct PT {
        std::thread th;
        volatile int kind = 0, skew = 0;
        volatile int ret1 = -99, ret2 = -99, tests_done_at_ret1 = -1, published_at_ret1 = -1, unpublished_before = 0;
        char pad[64];
};
static PT g_pt[MAXT];
static std::atomic<uint64_t> g_go{ 0 };
static std::atomic<int> g_ready{ 0 }, g_finished{ 0 };
static std::atomic<bool> g_quit{ false };
static inline void relax(unsigned &spins)
{
        if (++spins < 2000) _mm_pause();
        else sched_yield();
}
static void par_thread(int i)
{
        uint64_t seen = g_go.load(); // (the release counter is global; this thread has not been counted ready yet)
        for (;;) {
                g_ready.fetch_add(1);
                uint64_t g;
                unsigned sp = 0;
                while ((g = g_go.load(std::memory_order_acquire)) == seen) relax(sp);
                seen = g;
                if (g_quit.load()) return;
                for (int k = g_pt[i].skew; k > 0; k--) _mm_pause();
                uint32_t st = *status_ptr();
                g_pt[i].unpublished_before = (st == 2 || st == 3);
                int r = first_call(g_pt[i].kind, g_mgr[i]);
                g_pt[i].ret1 = r;
                g_pt[i].tests_done_at_ret1 = g_tests_done;
                st = *status_ptr();
                g_pt[i].published_at_ret1 = (st == 0 || st == 1) ? 1 : 0;
                g_pt[i].ret2 = later_call();
                g_finished.fetch_add(1);
        }
}
static uintptr_t g_x86_lo = 0, g_x86_hi = 0;
static bool select_impl(const Case &c, pbt::Ctx &ctx)
{
        if (c.impl && !generic_available()) { ctx.label("generic implementation not available"); return false; }
        g_impl = c.impl;
        if (g_impl) { g_chk_lo = (uintptr_t) &c17g_isal_self_tests; g_chk_hi = g_chk_lo + 0x180; }
        else { g_chk_lo = g_x86_lo; g_chk_hi = g_x86_hi; }
        ctx.label(g_impl ? "impl=generic (self_tests_generic.c)" : "impl=x86");
        return true;
}
// exactly once: the AES group is entered once; the SHA group once as well, except that an implementation may skip it after a failed
// AES group (the generic one does: the verdict is already "failed") - never more than once
static bool once_ok(const Case &c) { return g_aes_entries == 1 && g_sha_entries <= 1 && (g_sha_entries == 1 || (c.fail & 1)); }
static bool run_parallel(const Case &c, pbt::Ctx &ctx)
{
        if (!select_impl(c, ctx)) return true;
        int n = c.n < 2 ? 2 : c.n > MAXT ? MAXT : c.n;
        g_quit.store(false);
        g_ready.store(0);
        for (int i = 0; i < n; i++) g_pt[i].th = std::thread(par_thread, i);
        g_outcome_fail = c.fail;
        g_yield = c.yield;
        long rounds = c.rounds < 1 ? 1 : c.rounds;
        if (ctx.replaying) rounds = rounds * 500 < 300000 ? 300000 : rounds * 500; // a replay keeps trying: the hardware owns this schedule
        int want = c.fail ? ISAL_CRYPTO_ERR_SELF_TEST : 0;
        uint64_t contended = 0;
        bool ok = true;
        ctx.label("threads=" + std::to_string(n));
        ctx.label(c.fail == 0 ? "outcome=pass" : c.fail == 1 ? "outcome=fail(aes group)" : c.fail == 2 ? "outcome=fail(sha group)" : "outcome=fail(both groups)");
        ctx.label("mode=parallel-real-threads");
        for (long r = 0; r < rounds && ok; r++) {
                unsigned sp = 0;
                while (g_ready.load() < n) relax(sp);
                g_ready.store(0);
                g_finished.store(0);
                g_aes_entries = g_sha_entries = g_tests_done = g_work_before_done = 0;
                for (int i = 0; i < n; i++) {
                        g_pt[i].kind = i < (int) c.kinds.size() ? c.kinds[i] : 0;
                        g_pt[i].skew = c.skew.empty() ? 0 : c.skew[(i + r) % c.skew.size()];
                        g_pt[i].ret1 = g_pt[i].ret2 = -99;
                }
                set_state(2);
                g_go.fetch_add(1, std::memory_order_release);
                auto t0 = std::chrono::steady_clock::now();
                bool timeout = false;
                sp = 0;
                while (g_finished.load() < n) {
                        relax(sp);
                        if ((sp & 1023) == 0 && std::chrono::steady_clock::now() - t0 > std::chrono::seconds(20)) { timeout = true; break; }
                }
                if (timeout) {
                        // a wall-clock bound is not an oracle: release possible spinners and call this round inconclusive
                        set_state(0);
                        while (g_finished.load() < n) relax(sp);
                        ctx.label("parallel-round-timeout(inconclusive)");
                        break; // a waiter that never returns would cost the bound again in every further round; termination is the deterministic engine's call
                }
                int unp = 0;
                for (int i = 0; i < n; i++) unp += g_pt[i].unpublished_before;
                if (unp >= 2) contended++;
                if (!once_ok(c))
                        if (ctx.fail("not-exactly-once", "self tests executed " + std::to_string(g_aes_entries) + " (aes) / " + std::to_string(g_sha_entries) + " (sha) times with " +
                                                                 std::to_string(n) + " threads making their first call at the same time on different cores (round " + std::to_string(r) + ")"))
                                ok = false;
                for (int i = 0; i < n && ok; i++) {
                        if (g_pt[i].ret1 == 0 && (!g_pt[i].tests_done_at_ret1 || !g_pt[i].published_at_ret1))
                                if (ctx.fail("early-success", "parallel thread " + std::to_string(i) + " returned success before the self tests had finished")) ok = false;
                        if (ok && g_pt[i].ret1 != want)
                                if (ctx.fail("verdict", "parallel thread " + std::to_string(i) + " observed " + std::to_string(g_pt[i].ret1) + " but the self tests " + (c.fail ? "failed" : "passed"))) ok = false;
                        if (ok && g_pt[i].ret2 != want)
                                if (ctx.fail("verdict-second-call", "parallel thread " + std::to_string(i) + " observed " + std::to_string(g_pt[i].ret2) + " on its second call")) ok = false;
                }
                if (ok && g_work_before_done)
                        if (ctx.fail("work-before-selftest", "an approved entry point started its work before the self tests had finished and passed (parallel threads)")) ok = false;
        }
        {
                unsigned sp = 0;
                while (g_ready.load() < n) relax(sp);
                g_quit.store(true);
                g_go.fetch_add(1, std::memory_order_release);
                for (int i = 0; i < n; i++) g_pt[i].th.join();
        }
        set_state(0);
        ctx.label("parallel rounds", (uint64_t) rounds);
        ctx.label("parallel rounds with >=2 threads arriving before the verdict", contended);
        ctx.nontrivial = contended > 0;
        return ok;
}

static bool run(const Case &c, pbt::Ctx &ctx)
{
        if (c.mode == 3) return run_parallel(c, ctx);
        if (!select_impl(c, ctx)) return true;
        auto failx = [&](const std::string &k, const std::string &m) { return ctx.fail(k, m); };
        g_case = &c;
        g_n = c.n;
        g_sched_pos = 0;
        g_burst_left = 0;
        g_steps = 0;
        g_step_bound = 60000;
        g_bound_hit = false;
        g_outcome_fail = c.fail;
        g_yield = c.yield;
        g_aes_entries = g_sha_entries = g_tests_done = g_work_before_done = 0;
        g_runner = -1;
        g_max_in_check = 0;
        g_spin_before_publish = false;
        for (int i = 0; i < g_n; i++) {
                if (!T[i].stack) T[i].stack = (uint8_t *) mmap(nullptr, 1 << 16, PROT_READ | PROT_WRITE, MAP_PRIVATE | MAP_ANONYMOUS, -1, 0);
                T[i].done = 0;
                T[i].finished = false;
                T[i].in_check = false;
                T[i].kind = i < (int) c.kinds.size() ? c.kinds[i] : 0;
                T[i].ret1 = T[i].ret2 = -99;
                T[i].tests_done_at_ret1 = T[i].published_at_ret1 = -1;
        }
        set_state(2); // SELF_TEST_NOT_DONE
        g_cur = -1;
        g_single_step = 1;
        raise(SIGTRAP); // enters the scheduler; returns here when every logical thread finished
        g_single_step = 0;
        set_state(0);
        g_case = nullptr;

        ctx.label("threads=" + std::to_string(c.n));
        ctx.label(c.fail == 0 ? "outcome=pass" : c.fail == 1 ? "outcome=fail(aes group)" : c.fail == 2 ? "outcome=fail(sha group)" : "outcome=fail(both groups)");
        ctx.label(c.mode == 2 ? "mode=enumerated<=2-preemptions" : c.mode ? "mode=preemption-list" : "mode=burst-bytes");
        ctx.label("steps", g_steps);
        ctx.nontrivial = g_max_in_check >= 2 || g_spin_before_publish;
        if (g_max_in_check >= 2) ctx.label(">=2 threads inside the check/claim window");
        if (g_spin_before_publish) ctx.label("loser spinning before publish");

        if (g_bound_hit) {
                std::string who;
                for (int i = 0; i < g_n; i++)
                        if (!T[i].finished) who += std::to_string(i) + " ";
                return !failx("no-termination", "thread(s) " + who + "still waiting after " + std::to_string(g_steps) + " steps although the schedule tail is fair");
        }
        if (!once_ok(c))
                if (failx("not-exactly-once", "self tests executed " + std::to_string(g_aes_entries) + " (aes) / " + std::to_string(g_sha_entries) + " (sha) times with " +
                                                      std::to_string(c.n) + " threads"))
                        return false;
        int want = c.fail ? ISAL_CRYPTO_ERR_SELF_TEST : 0;
        for (int i = 0; i < g_n; i++) {
                if (T[i].ret1 == 0 && (!T[i].tests_done_at_ret1 || !T[i].published_at_ret1))
                        if (failx("early-success", "thread " + std::to_string(i) + " returned success at step " + std::to_string(T[i].step_at_ret1) + " before the self tests had finished")) return false;
                if (T[i].ret1 != want)
                        if (failx("verdict", "thread " + std::to_string(i) + " observed " + std::to_string(T[i].ret1) + " but the self tests " + (c.fail ? "failed" : "passed"))) return false;
                if (T[i].ret2 != want)
                        if (failx("verdict-second-call", "thread " + std::to_string(i) + " observed " + std::to_string(T[i].ret2) + " on its second call")) return false;
        }
        if (g_work_before_done)
                if (failx("work-before-selftest", "an approved entry point started its work before the self tests had finished and passed")) return false;
        return true;
}

// ---- complete enumeration of all schedules with at most two preemptions (thorough tier, --opt enum=1)
struct Combo {
        int n, fail, yield;
        std::vector<int> kinds;
        uint64_t S = 0;      // steps of the preemption-free (run-to-yield) schedule
        uint64_t count = 0;  // 1 + S*(n-1) + C(S,2)*(n-1)^2
};
static std::vector<Combo> g_combos;
static uint64_t g_enum_total = 0, g_enum_next = 0, g_enum_stride = 1;
static bool g_enum = false;
static Case enum_case(uint64_t idx)
{
        Case c;
        c.mode = 2;
        for (auto &cb : g_combos) {
                if (idx >= cb.count) { idx -= cb.count; continue; }
                c.n = cb.n; c.fail = cb.fail; c.yield = cb.yield; c.kinds = cb.kinds;
                uint64_t m = cb.n - 1;
                if (idx == 0) return c;
                idx -= 1;
                if (idx < cb.S * m) {
                        c.pre.emplace_back((uint32_t) (idx / m), (int) (idx % m)); // target resolved relative to the running thread in pick_next? -> absolute below
                        return c;
                }
                idx -= cb.S * m;
                uint64_t tt = idx % (m * m);
                uint64_t pr = idx / (m * m);
                // pr -> (p1 < p2)
                uint64_t p2 = 1;
                while (p2 * (p2 - 1) / 2 + p2 <= pr) p2++; // largest p2 with C(p2,2) <= pr
                uint64_t p1 = pr - p2 * (p2 - 1) / 2;
                c.pre.emplace_back((uint32_t) p1, (int) (tt % m));
                c.pre.emplace_back((uint32_t) p2, (int) (tt / m));
                return c;
        }
        c.n = 1;
        c.kinds = { 0 };
        return c;
}

int main(int argc, char **argv)
{
        pbt::Prop<Case> P;
        P.id = "C17";
        P.setup = [](pbt::Ctx &ctx) {
                if (!status_ptr()) { fprintf(stderr, "HARNESS-ERROR: cannot locate the self-test status word\n"); exit(3); }
                fips::set_state(0);
                if (isal_self_tests() == ISAL_CRYPTO_ERR_FIPS_DISABLED) { fprintf(stderr, "HARNESS-ERROR: C17 needs the FIPS_MODE variant of the library\n"); exit(3); }
                g_x86_lo = g_chk_lo = (uintptr_t) &asm_check_self_tests_status;
                g_chk_hi = (uintptr_t) &asm_set_self_tests_status;
                if (g_chk_hi <= g_chk_lo || g_chk_hi - g_chk_lo > 4096) g_chk_hi = g_chk_lo + 128;
                g_x86_hi = g_chk_hi;
                ctx.notes.push_back(generic_available() ? "fips/self_tests_generic.c compiled in as second implementation of the protocol"
                                                        : "fips/self_tests_generic.c could not be prepared: only the x86 implementation is exercised");
                static uint8_t *alt = (uint8_t *) mmap(nullptr, 1 << 18, PROT_READ | PROT_WRITE, MAP_PRIVATE | MAP_ANONYMOUS, -1, 0);
                stack_t ss;
                ss.ss_sp = alt;
                ss.ss_size = 1 << 18;
                ss.ss_flags = 0;
                sigaltstack(&ss, nullptr);
                struct sigaction sa;
                memset(&sa, 0, sizeof sa);
                sa.sa_sigaction = on_trap;
                sa.sa_flags = SA_SIGINFO | SA_ONSTACK;
                sigemptyset(&sa.sa_mask);
                sigaction(SIGTRAP, &sa, nullptr);
                g_real_bodies = ctx.optnum("real_bodies", 1) != 0;
                g_enum = ctx.optnum("enum", 0) != 0;
                if (g_enum) {
                        auto add = [&](int n, std::vector<int> kinds, int fail, int yield) {
                                Combo cb;
                                cb.n = n; cb.kinds = kinds; cb.fail = fail; cb.yield = yield;
                                Case probe;
                                probe.mode = 2; probe.n = n; probe.kinds = kinds; probe.fail = fail; probe.yield = yield;
                                pbt::Ctx tmp;
                                run(probe, tmp);
                                cb.S = g_steps + 8;
                                uint64_t m = n - 1;
                                cb.count = 1 + cb.S * m + cb.S * (cb.S - 1) / 2 * m * m;
                                g_combos.push_back(cb);
                                g_enum_total += cb.count;
                        };
                        for (int fail = 0; fail < 3; fail++)
                                for (int yield : { 0, 3 }) {
                                        add(2, { 0, 0 }, fail, yield);
                                        add(2, { 0, 1 }, fail, yield);
                                        add(2, { 1, 1 }, fail, yield);
                                }
                        for (int fail = 0; fail < 3; fail++) {
                                add(3, { 0, 0, 0 }, fail, 0);
                                add(3, { 1, 0, 1 }, fail, 0);
                        }
                        g_enum_next = (uint64_t) ctx.optnum("worker", 0);
                        g_enum_stride = (uint64_t) ctx.optnum("workers", 1);
                        ctx.notes.push_back("enumeration: " + std::to_string(g_enum_total) + " schedules with <= 2 preemptions over " + std::to_string(g_combos.size()) +
                                            " (threads, entry kinds, outcome, yield) combinations");
                }
        };
        P.gen = [](pbt::Ctx &ctx) {
                using namespace pbt;
                if (g_enum && g_enum_next < g_enum_total && ctx.optnum("enum_share", 100) > rng<long>(0, 99)) {
                        Case e = enum_case(g_enum_next);
                        g_enum_next += g_enum_stride;
                        ctx.label("enumerated-schedules");
                        return e;
                }
                Case c;
                c.n = weighted({ 1, 6, 5, 2, 1 }) + 1;
                c.fail = coin(1, 3) ? rng<int>(1, 3) : 0; // which group reports the failure: 1 aes, 2 sha, 3 both
                c.yield = weighted({ 2, 3, 1 }) == 0 ? 0 : rng<int>(1, 40);
                for (int i = 0; i < c.n; i++) c.kinds.push_back(coin(1, 3));
                if (generic_available() && coin(1, 4)) {
                        c.impl = 1;
                        for (auto &k : c.kinds) k = 0; // (the approved-entry wrappers of the library call the x86 implementation)
                }
                if (coin(1, (int) ctx.optnum("par_every", 12))) {
                        c.mode = 3;
                        c.n = rng<int>(2, MAXT);
                        c.kinds.clear();
                        for (int i = 0; i < c.n; i++) c.kinds.push_back(c.impl ? 0 : coin(1, 3));
                        c.rounds = rng<int>(20, 400);
                        int k = rng<int>(1, c.n + 1);
                        for (int i = 0; i < k; i++) c.skew.push_back(coin(1, 2) ? 0 : rng<int>(0, 40));
                        return c;
                }
                c.mode = coin(1, 3);
                if (c.mode == 0) {
                        int k = rng<int>(0, 120);
                        for (int i = 0; i < k; i++) c.bytes.push_back((uint8_t) rng<int>(0, 255));
                } else {
                        int k = rng<int>(0, 4);
                        for (int i = 0; i < k; i++) c.pre.emplace_back(rng<uint32_t>(0, 40u * c.n + 3u * c.yield), rng<int>(0, c.n - 1));
                }
                (void) ctx;
                return c;
        };
        P.to_json = to_json;
        P.from_json = from_json;
        P.run = run;
        return pbt::main_(argc, argv, P);
}
