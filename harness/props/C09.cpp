// C09 - rolling-hash boundaries depend only on the last w bytes, not on call splitting; all scan
//       implementations agree; the hash is a fixed function of the window defined by the constant table.
#include "../common/arena.hpp"
#include "../common/isal.hpp"
#include "../common/json.hpp"
#include "../common/pbt.hpp"
#include "../common/periodic.hpp"
#include "../ref/rolling_table_frozen.hpp"

typedef int (*rh_init_fn)(void *st, uint32_t w);
typedef void (*rh_reset_fn)(void *st, uint8_t *init);
typedef int (*rh_reset_ifn)(void *st, const uint8_t *init);
typedef int (*rh_run_fn)(void *st, uint8_t *buf, uint32_t max_len, uint32_t mask, uint32_t trigger, uint32_t *off);
typedef int (*rh_run_ifn)(void *st, const uint8_t *buf, uint32_t max_len, uint32_t mask, uint32_t trigger, uint32_t *off, int *match);
typedef uint64_t (*rh_scan_fn)(uint32_t *idx, int max_idx, uint64_t *t1, uint64_t *t2, uint8_t *b1, uint8_t *b2, uint64_t h, uint64_t mask, uint64_t trigger);

static inline uint64_t rotl64(uint64_t x, unsigned r) { r &= 63; return r ? (x << r) | (x >> (64 - r)) : x; }
// hash of a window of w bytes, from scratch, from the frozen table
static uint64_t window_hash(const uint8_t *win, unsigned w)
{
        uint64_t h = 0;
        for (unsigned i = 0; i < w; i++) h ^= rotl64(ref::rolling_table_frozen[win[i]], w - 1 - i);
        return h;
}

struct Case {
        int api = 0;         // 0 isal_, 1 legacy
        std::string scan;    // "dispatch" | "base" | "00" | "04"
        uint32_t w = 16, mask = 0, trigger = 0;
        uint64_t seed = 1;
        uint32_t stream_len = 0;
        std::vector<uint32_t> maxlens; // cycled
        int place = 1;                // START-flush by default: buffer[-1] is unmapped
        int giant = 0;                // 1: the stream is the periodic 5 GiB read-only mapping, max_len values of 2^31..2^32-1
        // mask_gen side check
        uint32_t mean = 0, shift = 0;
};
static J to_json(const Case &c)
{
        J j = J::obj();
        j.set("api", c.api).set("scan", c.scan).set("w", c.w).set("mask", c.mask).set("trigger", c.trigger).set("seed", (unsigned long long) c.seed);
        j.set("stream_len", c.stream_len).set("place", c.place).set("mean", c.mean).set("shift", c.shift).set("giant", c.giant);
        J a = J::arr();
        for (auto m : c.maxlens) a.push(J(m));
        j.set("maxlens", a);
        return j;
}
static Case from_json(const J &j)
{
        Case c;
        c.api = j.num("api", 0); c.scan = j.str("scan", "dispatch"); c.w = j.unum("w", 16); c.mask = j.unum("mask", 0); c.trigger = j.unum("trigger", 0);
        c.seed = j.unum("seed", 1); c.stream_len = j.unum("stream_len", 0); c.place = j.num("place", 1); c.mean = j.unum("mean", 0); c.shift = j.unum("shift", 0); c.giant = j.num("giant", 0);
        for (auto &m : j.at("maxlens").a) c.maxlens.push_back((uint32_t) m.unum());
        return c;
}

static void **g_dispatched = nullptr;
static void *g_mbinit = nullptr;

static bool run(const Case &c, pbt::Ctx &ctx)
{
        const std::string site = std::string(c.api ? "legacy" : "isal") + "/scan=" + c.scan;
        auto failx = [&](const std::string &k, const std::string &m) { return ctx.fail(k + "|" + site, site + ": " + m); };
        void *scanfn = nullptr;
        if (c.scan != "dispatch") {
                scanfn = isal::sym("_rolling_hash2_run_until_" + c.scan);
                if (!scanfn || !g_dispatched || !isal::host_can_run(c.scan)) { ctx.label("scan-unavailable"); return true; }
        }
        // the library's table must still be the frozen one (boundaries stable across versions)
        uint64_t *libtab = (uint64_t *) isal::sym("rolling_hash2_table1");
        if (libtab && memcmp(libtab, ref::rolling_table_frozen, sizeof ref::rolling_table_frozen))
                if (failx("table-changed", "the library's constant table differs from the frozen copy")) return false;

        std::string pfx = c.api ? "" : "isal_";
        void *f_init = isal::sym(pfx + "rolling_hash2_init"), *f_reset = isal::sym(pfx + "rolling_hash2_reset"), *f_run = isal::sym(pfx + "rolling_hash2_run");
        void *f_mg = isal::sym(pfx + "rolling_hashx_mask_gen");
        if (!f_init || !f_reset || !f_run) { ctx.label("absent-entry"); return true; }

        if (!c.giant && c.stream_len > (1u << 26)) { ctx.label("shrink artefact (giant flag dropped)"); return true; }
        guard::Arena A;
        guard::FaultInfo fi;
        // ---- mask_gen side check
        if (f_mg && c.mean) {
                uint32_t got = 0;
                int rc = 0;
                uint32_t *mp = (uint32_t *) A.alloc("mask-out", 4, 4, guard::END, 0x1e);
                if (c.api) got = ((uint32_t(*)(long, int)) f_mg)((long) c.mean, (int) c.shift);
                else { rc = ((int (*)(uint32_t, uint32_t, uint32_t *)) f_mg)(c.mean, c.shift, mp); got = *mp; }
                uint32_t m = c.mean < 2 ? 2 : c.mean, p2 = 1;
                while ((uint64_t) p2 * 2 <= m) p2 *= 2;
                uint32_t base = p2 - 1, want = c.shift ? (base << c.shift) | (base >> (32 - c.shift)) : base;
                if ((rc || got != want) && failx("mask-gen", "mask_gen(" + std::to_string(c.mean) + "," + std::to_string(c.shift) + ") = " + std::to_string(got) + " want " + std::to_string(want)))
                        return false;
        }
        uint8_t *st = A.alloc("state", sizeof(isal_rh_state2), 8, guard::END, (int) (c.seed & 0xff));
        std::vector<uint8_t> init = pbt::expandv(c.seed, c.w), stream = pbt::expandv(c.seed + 1, c.giant ? 0 : c.stream_len);
        const uint64_t giant_cap = 3u << 20; // the mapping repeats every 1 MiB: no hit in 3 MiB means no hit at all
        uint8_t *ib = A.alloc("init_bytes", c.w, 1, guard::END);
        memcpy(ib, init.data(), c.w);
        A.set_readonly(ib);
        int rc = 0;
        bool ok = guard::guarded_call(fi, [&] {
                rc = ((rh_init_fn) f_init)(st, c.w);
                if (c.api) ((rh_reset_fn) f_reset)(st, ib);
                else rc |= ((rh_reset_ifn) f_reset)(st, ib);
        });
        if (!ok) {
                A.describe(fi);
                return !failx("fault-init", "fault in init/reset: " + fi.where);
        }
        if (rc) return !failx("rc", "init/reset returned " + std::to_string(rc));
        isal_rh_state2 *S = (isal_rh_state2 *) st;
        std::vector<uint8_t> win(init); // last w bytes of (init || consumed stream)
        if (S->hash != window_hash(win.data(), c.w))
                if (failx("reset-hash", "state hash after reset is not the table-defined hash of the init bytes")) return false;
        // force the scan implementation
        void *saved = nullptr;
        if (scanfn) { saved = *g_dispatched; *g_dispatched = scanfn; }
        struct Restore {
                void **p; void *v; bool on;
                ~Restore() { if (on) *p = v; }
        } restore{ g_dispatched, saved, scanfn != nullptr };

        uint32_t pos = 0;
        size_t call = 0;
        bool nt = false;
        int hits = 0;
        uint32_t *offp = (uint32_t *) A.alloc("offset-out", 4, 4, guard::END, 0x2e);
        int *matchp = (int *) A.alloc("match-out", 4, 4, guard::END, 0x3e);
        while (call < (c.giant ? 6u : 400u)) {
                uint32_t remaining = c.giant ? 0xffffffffu : c.stream_len - pos;
                uint32_t ml = c.maxlens.empty() ? remaining : c.maxlens[call % c.maxlens.size()];
                if (ml > remaining) ml = remaining;
                uint8_t *buf = c.giant ? periodic::stream() + pos : A.alloc("buffer", ml, 1, (guard::Place) c.place);
                if (!c.giant) {
                        memcpy(buf, stream.data() + pos, ml);
                        A.set_readonly(buf);
                }
                // reference scan
                uint32_t want_off = ml;
                int want_match = ISAL_FINGERPRINT_RET_MAX;
                std::vector<uint8_t> wwin(win);
                uint64_t want_hash = window_hash(wwin.data(), c.w);
                bool capped = false;
                for (uint32_t i = 0; i < ml; i++) {
                        if (c.giant && i >= giant_cap) { capped = true; break; }
                        wwin.erase(wwin.begin());
                        wwin.push_back(buf[i]);
                        want_hash = window_hash(wwin.data(), c.w);
                        if ((want_hash & (uint64_t) c.mask) == (uint64_t) c.trigger) {
                                want_off = i + 1;
                                want_match = ISAL_FINGERPRINT_RET_HIT;
                                break;
                        }
                }
                if (capped) { ctx.label("giant call without a hit (skipped)"); break; }
                if (c.giant && ml >= 0x7fffffffu) nt = true;
                if (want_match == ISAL_FINGERPRINT_RET_HIT) {
                        hits++;
                        if (want_off <= c.w || want_off == ml) nt = true;
                }
                if (ml < c.w) nt = true;
                *offp = 0xdeadbeef;
                *matchp = 77;
                int m = 77;
                rc = 0;
                ok = guard::guarded_call(fi, [&] {
                        if (c.api) m = ((rh_run_fn) f_run)(st, buf, ml, c.mask, c.trigger, offp);
                        else { rc = ((rh_run_ifn) f_run)(st, buf, ml, c.mask, c.trigger, offp, matchp); m = *matchp; }
                });
                if (!ok) {
                        A.describe(fi);
                        return !failx("fault-run", "fault in run (call " + std::to_string(call) + ", max_len " + std::to_string(ml) + ", w " + std::to_string(c.w) + "): " + fi.where);
                }
                if (rc) return !failx("rc", "run returned " + std::to_string(rc));
                char d[300];
                snprintf(d, sizeof d, "call %zu at stream pos %u: max_len=%u w=%u mask=%#x trigger=%#x -> offset=%u match=%d, expected offset=%u match=%d", call, pos, ml, c.w, c.mask,
                         c.trigger, *offp, m, want_off, want_match);
                if (*offp != want_off || m != want_match) {
                        std::string k = (want_match == ISAL_FINGERPRINT_RET_HIT && want_off == ml) ? "boundary-last-byte" : "boundary";
                        if (failx(k, d)) return false;
                        // the call is off: later calls would resume from a wrong position; stop this case here
                        return true;
                }
                if (S->hash != want_hash)
                        if (failx("state-hash", std::string("state->hash is not the hash of the last w bytes; ") + d)) return false;
                std::string cn = A.check_canaries();
                if (!cn.empty() && failx("canary", cn)) return false;
                if (!c.giant) A.release(buf);
                win = wwin;
                pos += want_off;
                call++;
                if (!c.giant && pos >= c.stream_len) break;
        }
        if (c.giant) ctx.label("giant max_len (2^31..2^32-1)");
        ctx.label("scan=" + c.scan);
        ctx.label("hits", hits);
        ctx.label("calls", call);
        ctx.label("w=" + std::to_string(c.w <= 8 ? 8 : c.w <= 32 ? 32 : 48));
        ctx.nontrivial = nt;
        return true;
}

int main(int argc, char **argv)
{
        pbt::Prop<Case> P;
        P.id = "C09";
        P.setup = [](pbt::Ctx &ctx) {
                g_dispatched = (void **) isal::sym("_rolling_hash2_run_until_dispatched");
                g_mbinit = isal::sym("_rolling_hash2_run_until_mbinit");
                if (!g_dispatched) ctx.notes.push_back("hook symbols absent: scan implementation cannot be forced, only the host's binding is exercised");
        };
        P.gen = [](pbt::Ctx &ctx) {
                using namespace pbt;
                Case c;
                static long case_no = 0;
                if (case_no < ctx.optnum("giants", 0)) {
                        // one run call told that 2^31 .. 2^32-1 bytes are available (they are: a periodic read-only mapping); a sparse enough
                        // mask still hits within the first KiBs, so the call is cheap - unless the scan mishandles the large count
                        static const char *scans[] = { "base", "00", "04", "dispatch" };
                        c.giant = 1;
                        c.scan = g_dispatched ? scans[(ctx.optnum("worker", 0) + case_no) % 4] : "dispatch";
                        case_no++;
                        c.api = coin(1, 4);
                        c.w = rng<uint32_t>(1, 48);
                        c.seed = rng64(1, UINT64_MAX - 8);
                        c.stream_len = 0xffffffffu;
                        int bits = rng<int>(0, 10);
                        for (int i = 0; i < bits; i++) c.mask |= 1u << rng<int>(0, 31);
                        c.trigger = coin(1, 3) ? 0 : (rng<uint32_t>(0, 0xffffffffu) & c.mask);
                        int k = rng<int>(1, 3);
                        for (int i = 0; i < k; i++) c.maxlens.push_back(coin(1, 2) ? pick<uint32_t>({ 0x7fffffffu, 0x80000000u, 0x80000001u, 0xffffffffu }) : rng<uint32_t>(0x7ffffff0u, 0xffffffffu));
                        return c;
                }
                c.api = coin(1, 4);
                c.scan = g_dispatched ? pick<std::string>({ "base", "00", "04", "dispatch" }) : std::string("dispatch");
                c.w = weighted({ 1, 6, 1 }) == 0 ? rng<uint32_t>(1, 3) : rng<uint32_t>(1, 48);
                c.seed = rng64(1, UINT64_MAX - 8);
                c.stream_len = weighted({ 1, 10, 4 }) == 0 ? rng<uint32_t>(0, 40) : rng<uint32_t>(1, coin(1, 4) ? 8192 : 1200);
                int bits = weighted({ 1, 8, 2 }) == 0 ? 0 : rng<int>(1, 12);
                c.mask = 0;
                if (coin(1, 6)) c.mask = rng<uint32_t>(0, 0xffffffffu);
                else
                        for (int i = 0; i < bits; i++) c.mask |= 1u << rng<int>(0, 31);
                c.trigger = coin(1, 3) ? 0 : (rng<uint32_t>(0, 0xffffffffu) & c.mask);
                int k = rng<int>(0, 6);
                for (int i = 0; i < k; i++) {
                        switch (weighted({ 2, 4, 2, 2, 6 })) {
                        case 0: c.maxlens.push_back(0); break;
                        case 1: c.maxlens.push_back(rng<uint32_t>(1, c.w)); break;
                        case 2: c.maxlens.push_back(c.w + 1); break;
                        case 3: c.maxlens.push_back(c.w + rng<uint32_t>(2, 9)); break;
                        default: c.maxlens.push_back(rng<uint32_t>(1, 2000)); break;
                        }
                }
                // a partition consisting only of zeros would never make progress
                bool allzero = true;
                for (auto m : c.maxlens) allzero &= (m == 0);
                if (allzero && !c.maxlens.empty()) c.maxlens.push_back(c.w + 3);
                c.place = weighted({ 1, 2 });
                if (coin(1, 3)) {
                        c.mean = coin(1, 4) ? pick<uint32_t>({ 1u, 2u, 3u, 4u, 0x7fffffffu, 0x80000000u, 0xffffffffu }) : rng<uint32_t>(1, 0xffffffffu);
                        c.shift = rng<uint32_t>(0, 31);
                }
                return c;
        };
        P.to_json = to_json;
        P.from_json = from_json;
        P.run = run;
        return pbt::main_(argc, argv, P);
}
