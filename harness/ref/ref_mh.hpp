// Reference multi-hash (mh_sha1 / mh_sha256) written from the definition, and
// MurmurHash3_x64_128 written from Austin Appleby's public-domain description.
//
// Multi-hash definition used (ISA-L "multi-hash" white paper / include/mh_sha1.h):
//  * the stream is padded SHA-style (0x80, zeros, 64-bit big-endian bit length) to a
//    multiple of 1024 bytes;
//  * each 1024-byte block is 256 32-bit words; word k goes to segment k mod 16 as word
//    k div 16 of that segment's 64-byte SHA block;
//  * every segment is an ordinary SHA-1 (SHA-256) chain started from the standard IV,
//    with no padding of its own;
//  * the 16 segment states, laid out word-major (word i of segment j at index i*16+j,
//    each a native little-endian uint32), are hashed with standard SHA-1 (SHA-256);
//  * the result is delivered as native uint32 words holding the numeric H values.
#pragma once
#include "ref_hash.hpp"

namespace ref {

struct MhRef {
        int algo; // SHA1 or SHA256
        int nw;   // 5 or 8
        uint32_t seg[16][8];
        uint8_t buf[1024];
        unsigned fill = 0;
        uint64_t total = 0;

        explicit MhRef(int a) : algo(a), nw(a == SHA1 ? 5 : 8)
        {
                Hasher h(a);
                for (int j = 0; j < 16; j++) memcpy(seg[j], h.h32, sizeof seg[j]);
        }
        void block(const uint8_t *b)
        {
                uint8_t sb[64];
                for (int j = 0; j < 16; j++) {
                        for (int i = 0; i < 16; i++) memcpy(sb + 4 * i, b + 4 * (16 * i + j), 4);
                        if (algo == SHA1) sha1_compress(seg[j], sb);
                        else sha256_compress(seg[j], sb);
                }
        }
        void update(const void *data, size_t len)
        {
                const uint8_t *p = (const uint8_t *) data;
                total += len;
                if (fill) {
                        size_t n = 1024 - fill;
                        if (n > len) n = len;
                        memcpy(buf + fill, p, n);
                        fill += n; p += n; len -= n;
                        if (fill == 1024) { block(buf); fill = 0; }
                }
                while (len >= 1024) { block(p); p += 1024; len -= 1024; }
                if (len) { memcpy(buf, p, len); fill = len; }
        }
        // native uint32 words (numeric H), nw of them
        std::vector<uint32_t> digest_words() const
        {
                MhRef c = *this;
                uint8_t pad[2048];
                memset(pad, 0, sizeof pad);
                pad[0] = 0x80;
                unsigned padlen = (c.fill + 1 <= 1024 - 8) ? (1024 - 8 - c.fill) : (2048 - 8 - c.fill);
                uint8_t lenb[8];
                put_be64(lenb, c.total * 8);
                c.update(pad, padlen);
                c.update(lenb, 8);
                uint8_t m[4 * 8 * 16];
                for (int i = 0; i < nw; i++)
                        for (int j = 0; j < 16; j++) put_le32(m + 4 * (i * 16 + j), c.seg[j][i]);
                std::vector<uint8_t> d = hash(algo, m, 4 * nw * 16);
                std::vector<uint32_t> w(nw);
                for (int i = 0; i < nw; i++) w[i] = be32(&d[4 * i]);
                return w;
        }
};

// ---------------------------------------------------------------- MurmurHash3_x64_128
static inline uint64_t rol64(uint64_t x, int r) { return (x << r) | (x >> (64 - r)); }
static inline uint64_t fmix64(uint64_t k)
{
        k ^= k >> 33; k *= 0xff51afd7ed558ccdULL;
        k ^= k >> 33; k *= 0xc4ceb9fe1a85ec53ULL;
        k ^= k >> 33;
        return k;
}
static inline uint64_t le64(const uint8_t *p)
{
        uint64_t v = 0;
        for (int i = 7; i >= 0; i--) v = v << 8 | p[i];
        return v;
}
struct Murmur3 {
        uint64_t h1, h2, total = 0;
        uint8_t buf[16];
        unsigned fill = 0;
        static constexpr uint64_t c1 = 0x87c37b91114253d5ULL, c2 = 0x4cf5ad432745937fULL;
        explicit Murmur3(uint64_t seed) : h1(seed), h2(seed) {}
        void block(const uint8_t *p)
        {
                uint64_t k1 = le64(p), k2 = le64(p + 8);
                k1 *= c1; k1 = rol64(k1, 31); k1 *= c2; h1 ^= k1;
                h1 = rol64(h1, 27); h1 += h2; h1 = h1 * 5 + 0x52dce729;
                k2 *= c2; k2 = rol64(k2, 33); k2 *= c1; h2 ^= k2;
                h2 = rol64(h2, 31); h2 += h1; h2 = h2 * 5 + 0x38495ab5;
        }
        void update(const void *data, size_t len)
        {
                const uint8_t *p = (const uint8_t *) data;
                total += len;
                if (fill) {
                        size_t n = 16 - fill;
                        if (n > len) n = len;
                        memcpy(buf + fill, p, n);
                        fill += n; p += n; len -= n;
                        if (fill == 16) { block(buf); fill = 0; }
                }
                while (len >= 16) { block(p); p += 16; len -= 16; }
                if (len) { memcpy(buf, p, len); fill = len; }
        }
        // 16 bytes: h1 little-endian then h2 little-endian
        std::vector<uint8_t> digest() const
        {
                uint64_t a = h1, b = h2, k1 = 0, k2 = 0;
                const uint8_t *t = buf;
                switch (fill) {
                case 15: k2 ^= (uint64_t) t[14] << 48; // fallthrough
                case 14: k2 ^= (uint64_t) t[13] << 40; // fallthrough
                case 13: k2 ^= (uint64_t) t[12] << 32; // fallthrough
                case 12: k2 ^= (uint64_t) t[11] << 24; // fallthrough
                case 11: k2 ^= (uint64_t) t[10] << 16; // fallthrough
                case 10: k2 ^= (uint64_t) t[9] << 8;   // fallthrough
                case 9:
                        k2 ^= (uint64_t) t[8];
                        k2 *= c2; k2 = rol64(k2, 33); k2 *= c1; b ^= k2; // fallthrough
                case 8: k1 ^= (uint64_t) t[7] << 56; // fallthrough
                case 7: k1 ^= (uint64_t) t[6] << 48; // fallthrough
                case 6: k1 ^= (uint64_t) t[5] << 40; // fallthrough
                case 5: k1 ^= (uint64_t) t[4] << 32; // fallthrough
                case 4: k1 ^= (uint64_t) t[3] << 24; // fallthrough
                case 3: k1 ^= (uint64_t) t[2] << 16; // fallthrough
                case 2: k1 ^= (uint64_t) t[1] << 8;  // fallthrough
                case 1:
                        k1 ^= (uint64_t) t[0];
                        k1 *= c1; k1 = rol64(k1, 31); k1 *= c2; a ^= k1;
                }
                a ^= total; b ^= total;
                a += b; b += a;
                a = fmix64(a); b = fmix64(b);
                a += b; b += a;
                std::vector<uint8_t> out(16);
                put_le64(&out[0], a);
                put_le64(&out[8], b);
                return out;
        }
};

} // namespace ref
