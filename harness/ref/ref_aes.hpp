// Independent AES reference written from FIPS 197 / SP 800-38A / SP 800-38D / IEEE 1619.
// Byte-oriented, table-light (S-box computed from the field inverse at start-up).
#pragma once
#include <cstdint>
#include <cstring>
#include <vector>

namespace ref {

struct AesTables {
        uint8_t sbox[256], inv[256];
        AesTables()
        {
                // multiplicative inverse in GF(2^8) mod x^8+x^4+x^3+x+1 via log tables on generator 3
                uint8_t exp[256], log[256];
                uint8_t x = 1;
                for (int i = 0; i < 255; i++) {
                        exp[i] = x;
                        log[x] = i;
                        x = x ^ (uint8_t) ((x << 1) ^ ((x & 0x80) ? 0x1b : 0)); // x *= 3
                }
                for (int i = 0; i < 256; i++) {
                        uint8_t q = i ? exp[(255 - log[i]) % 255] : 0;
                        uint8_t s = q ^ (uint8_t) ((q << 1) | (q >> 7)) ^ (uint8_t) ((q << 2) | (q >> 6)) ^ (uint8_t) ((q << 3) | (q >> 5)) ^
                                    (uint8_t) ((q << 4) | (q >> 4)) ^ 0x63;
                        sbox[i] = s;
                        inv[s] = i;
                }
        }
};
static inline const AesTables &aes_tables()
{
        static const AesTables t;
        return t;
}
static inline uint8_t xtime(uint8_t a) { return (uint8_t) ((a << 1) ^ ((a & 0x80) ? 0x1b : 0)); }
static inline uint8_t gmul8(uint8_t a, uint8_t b)
{
        uint8_t r = 0;
        while (b) {
                if (b & 1) r ^= a;
                a = xtime(a);
                b >>= 1;
        }
        return r;
}

static inline void inv_mix_columns(uint8_t s[16])
{
        for (int c = 0; c < 4; c++) {
                uint8_t *p = s + 4 * c, a0 = p[0], a1 = p[1], a2 = p[2], a3 = p[3];
                p[0] = gmul8(a0, 14) ^ gmul8(a1, 11) ^ gmul8(a2, 13) ^ gmul8(a3, 9);
                p[1] = gmul8(a0, 9) ^ gmul8(a1, 14) ^ gmul8(a2, 11) ^ gmul8(a3, 13);
                p[2] = gmul8(a0, 13) ^ gmul8(a1, 9) ^ gmul8(a2, 14) ^ gmul8(a3, 11);
                p[3] = gmul8(a0, 11) ^ gmul8(a1, 13) ^ gmul8(a2, 9) ^ gmul8(a3, 14);
        }
}
static inline void mix_columns(uint8_t s[16])
{
        for (int c = 0; c < 4; c++) {
                uint8_t *p = s + 4 * c, a0 = p[0], a1 = p[1], a2 = p[2], a3 = p[3];
                p[0] = xtime(a0) ^ (xtime(a1) ^ a1) ^ a2 ^ a3;
                p[1] = a0 ^ xtime(a1) ^ (xtime(a2) ^ a2) ^ a3;
                p[2] = a0 ^ a1 ^ xtime(a2) ^ (xtime(a3) ^ a3);
                p[3] = (xtime(a0) ^ a0) ^ a1 ^ a2 ^ xtime(a3);
        }
}

struct Aes {
        int nr = 0;         // 10 / 12 / 14
        uint8_t rk[15][16]; // FIPS 197 round keys w[4i..4i+3], byte order as in the standard

        Aes() {}
        Aes(const uint8_t *key, int keybits) { expand(key, keybits); }
        void expand(const uint8_t *key, int keybits)
        {
                const AesTables &T = aes_tables();
                int nk = keybits / 32;
                nr = nk + 6;
                uint8_t w[60][4];
                for (int i = 0; i < nk; i++) memcpy(w[i], key + 4 * i, 4);
                uint8_t rcon = 1;
                for (int i = nk; i < 4 * (nr + 1); i++) {
                        uint8_t t[4];
                        memcpy(t, w[i - 1], 4);
                        if (i % nk == 0) {
                                uint8_t t0 = t[0];
                                t[0] = T.sbox[t[1]] ^ rcon; t[1] = T.sbox[t[2]]; t[2] = T.sbox[t[3]]; t[3] = T.sbox[t0];
                                rcon = xtime(rcon);
                        } else if (nk > 6 && i % nk == 4) {
                                for (int k = 0; k < 4; k++) t[k] = T.sbox[t[k]];
                        }
                        for (int k = 0; k < 4; k++) w[i][k] = w[i - nk][k] ^ t[k];
                }
                for (int r = 0; r <= nr; r++)
                        for (int c = 0; c < 4; c++) memcpy(&rk[r][4 * c], w[4 * r + c], 4);
        }
        // encryption schedule as a flat array of (nr+1)*16 bytes
        std::vector<uint8_t> enc_schedule() const { return std::vector<uint8_t>(&rk[0][0], &rk[0][0] + 16 * (nr + 1)); }
        // decryption schedule for the "equivalent inverse cipher": reversed order,
        // InvMixColumns applied to the inner round keys (FIPS 197 section 5.3.5)
        std::vector<uint8_t> dec_schedule() const
        {
                std::vector<uint8_t> d(16 * (nr + 1));
                for (int r = 0; r <= nr; r++) {
                        uint8_t t[16];
                        memcpy(t, rk[nr - r], 16);
                        if (r != 0 && r != nr) inv_mix_columns(t);
                        memcpy(&d[16 * r], t, 16);
                }
                return d;
        }
        void encrypt(const uint8_t in[16], uint8_t out[16]) const
        {
                const AesTables &T = aes_tables();
                uint8_t s[16];
                for (int i = 0; i < 16; i++) s[i] = in[i] ^ rk[0][i];
                for (int r = 1; r <= nr; r++) {
                        uint8_t t[16];
                        for (int c = 0; c < 4; c++)
                                for (int row = 0; row < 4; row++) t[4 * c + row] = T.sbox[s[4 * ((c + row) & 3) + row]];
                        if (r != nr) mix_columns(t);
                        for (int i = 0; i < 16; i++) s[i] = t[i] ^ rk[r][i];
                }
                memcpy(out, s, 16);
        }
        void decrypt(const uint8_t in[16], uint8_t out[16]) const
        {
                const AesTables &T = aes_tables();
                uint8_t s[16];
                for (int i = 0; i < 16; i++) s[i] = in[i] ^ rk[nr][i];
                for (int r = nr - 1; r >= 0; r--) {
                        uint8_t t[16];
                        for (int c = 0; c < 4; c++)
                                for (int row = 0; row < 4; row++) t[4 * ((c + row) & 3) + row] = T.inv[s[4 * c + row]];
                        for (int i = 0; i < 16; i++) t[i] ^= rk[r][i];
                        if (r != 0) inv_mix_columns(t);
                        memcpy(s, t, 16);
                }
                memcpy(out, s, 16);
        }
};

// ---------------------------------------------------------------- CBC (SP 800-38A)
static inline void cbc_encrypt(const Aes &a, const uint8_t iv[16], const uint8_t *in, uint8_t *out, size_t len)
{
        uint8_t c[16];
        memcpy(c, iv, 16);
        for (size_t o = 0; o + 16 <= len; o += 16) {
                uint8_t t[16];
                for (int i = 0; i < 16; i++) t[i] = in[o + i] ^ c[i];
                a.encrypt(t, c);
                memcpy(out + o, c, 16);
        }
}
static inline void cbc_decrypt(const Aes &a, const uint8_t iv[16], const uint8_t *in, uint8_t *out, size_t len)
{
        uint8_t prev[16], cur[16], t[16];
        memcpy(prev, iv, 16);
        for (size_t o = 0; o + 16 <= len; o += 16) {
                memcpy(cur, in + o, 16);
                a.decrypt(cur, t);
                for (int i = 0; i < 16; i++) out[o + i] = t[i] ^ prev[i];
                memcpy(prev, cur, 16);
        }
}

// ---------------------------------------------------------------- GCM (SP 800-38D)
// GF(2^128) multiply, bit-reflected convention of the standard (algorithm 1).
static inline void ghash_mul(uint8_t x[16], const uint8_t y[16])
{
        uint8_t z[16] = { 0 }, v[16];
        memcpy(v, y, 16);
        for (int i = 0; i < 128; i++) {
                if (x[i >> 3] & (0x80 >> (i & 7)))
                        for (int k = 0; k < 16; k++) z[k] ^= v[k];
                int lsb = v[15] & 1;
                for (int k = 15; k > 0; k--) v[k] = (uint8_t) ((v[k] >> 1) | (v[k - 1] << 7));
                v[0] >>= 1;
                if (lsb) v[0] ^= 0xe1;
        }
        memcpy(x, z, 16);
}
// faster GHASH with a per-key 4-bit table pair is not needed: lengths here are modest, but
// large cases (1 MiB) benefit, so use an 8-bit table (Shoup) built once per key.
struct Ghash {
        uint64_t th[256], tl[256]; // H * (byte value placed in the top byte position)
        uint8_t h[16];
        explicit Ghash(const uint8_t hk[16])
        {
                memcpy(h, hk, 16);
                for (int b = 0; b < 256; b++) {
                        uint8_t x[16] = { 0 };
                        x[0] = (uint8_t) b;
                        ghash_mul(x, h);
                        th[b] = be64(x);
                        tl[b] = be64(x + 8);
                }
        }
        static inline uint64_t be64(const uint8_t *p)
        {
                uint64_t v = 0;
                for (int i = 0; i < 8; i++) v = v << 8 | p[i];
                return v;
        }
        // y = (y ^ blk) * H
        void absorb(uint8_t y[16], const uint8_t blk[16]) const
        {
                static uint16_t red[256];
                static bool init = false;
                if (!init) {
                        // reduction of the byte shifted out at the low end: value b * x^128 mod p, folded into the top 16 bits
                        for (int b = 0; b < 256; b++) {
                                uint16_t r = 0;
                                for (int i = 0; i < 8; i++)
                                        if (b & (1 << i)) r ^= (uint16_t) (0xe100 >> (7 - i));
                                red[b] = r;
                        }
                        init = true;
                }
                uint8_t x[16];
                for (int i = 0; i < 16; i++) x[i] = y[i] ^ blk[i];
                uint64_t zh = 0, zl = 0;
                // Horner over bytes from the last to the first: Z = Z * x^8 + T[x[i]]
                for (int i = 15; i >= 0; i--) {
                        uint8_t out = (uint8_t) (zl & 0xff);
                        zl = (zl >> 8) | (zh << 56);
                        zh = (zh >> 8) ^ ((uint64_t) red[out] << 48);
                        zh ^= th[x[i]];
                        zl ^= tl[x[i]];
                }
                for (int i = 0; i < 8; i++) { y[i] = (uint8_t) (zh >> (56 - 8 * i)); y[8 + i] = (uint8_t) (zl >> (56 - 8 * i)); }
        }
};

struct GcmResult {
        std::vector<uint8_t> out;
        uint8_t tag[16];
};
// IV is the 12-byte IV (J0 = IV || 0^31 || 1).  decrypt=false: in=plaintext; true: in=ciphertext.
static inline GcmResult gcm_crypt(const Aes &a, const uint8_t iv[12], const uint8_t *aad, size_t aad_len, const uint8_t *in, size_t len,
                                  bool decrypt)
{
        GcmResult r;
        r.out.resize(len);
        uint8_t zero[16] = { 0 }, hk[16];
        a.encrypt(zero, hk);
        Ghash g(hk);
        uint8_t j0[16], ctr[16], ks[16], y[16] = { 0 }, blk[16];
        memcpy(j0, iv, 12);
        j0[12] = j0[13] = j0[14] = 0;
        j0[15] = 1;
        for (size_t o = 0; o < aad_len; o += 16) {
                size_t n = aad_len - o < 16 ? aad_len - o : 16;
                memset(blk, 0, 16);
                memcpy(blk, aad + o, n);
                g.absorb(y, blk);
        }
        memcpy(ctr, j0, 16);
        for (size_t o = 0; o < len; o += 16) {
                size_t n = len - o < 16 ? len - o : 16;
                for (int k = 15; k >= 12; k--)
                        if (++ctr[k]) break;
                a.encrypt(ctr, ks);
                for (size_t i = 0; i < n; i++) r.out[o + i] = in[o + i] ^ ks[i];
                memset(blk, 0, 16);
                memcpy(blk, decrypt ? in + o : &r.out[o], n);
                g.absorb(y, blk);
        }
        uint64_t ab = (uint64_t) aad_len * 8, cb = (uint64_t) len * 8;
        for (int i = 0; i < 8; i++) { blk[i] = (uint8_t) (ab >> (56 - 8 * i)); blk[8 + i] = (uint8_t) (cb >> (56 - 8 * i)); }
        g.absorb(y, blk);
        a.encrypt(j0, ks);
        for (int i = 0; i < 16; i++) r.tag[i] = y[i] ^ ks[i];
        return r;
}

// ---------------------------------------------------------------- XTS (IEEE 1619-2007)
static inline void xts_mul_alpha(uint8_t t[16])
{
        int carry = t[15] >> 7;
        for (int k = 15; k > 0; k--) t[k] = (uint8_t) ((t[k] << 1) | (t[k - 1] >> 7));
        t[0] = (uint8_t) (t[0] << 1);
        if (carry) t[0] ^= 0x87;
}
// k2 = tweak key, k1 = data key; len >= 16
static inline void xts_crypt(const Aes &k2, const Aes &k1, const uint8_t tweak_in[16], const uint8_t *in, uint8_t *out, size_t len, bool decrypt)
{
        uint8_t t[16], x[16];
        k2.encrypt(tweak_in, t);
        size_t nfull = len / 16, rem = len % 16;
        auto one = [&](const uint8_t *src, uint8_t *dst, const uint8_t *tw) {
                for (int i = 0; i < 16; i++) x[i] = src[i] ^ tw[i];
                if (decrypt) k1.decrypt(x, x);
                else k1.encrypt(x, x);
                for (int i = 0; i < 16; i++) dst[i] = x[i] ^ tw[i];
        };
        std::vector<uint8_t> src(in, in + len); // tolerate in == out
        size_t plain_blocks = rem ? nfull - 1 : nfull;
        for (size_t b = 0; b < plain_blocks; b++) {
                one(&src[16 * b], out + 16 * b, t);
                xts_mul_alpha(t);
        }
        if (rem) {
                uint8_t t2[16], cc[16], pp[16];
                memcpy(t2, t, 16);
                xts_mul_alpha(t2);
                size_t m = nfull - 1;
                if (!decrypt) {
                        one(&src[16 * m], cc, t); // CC
                        memcpy(pp, cc, 16);
                        memcpy(pp, &src[16 * (m + 1)], rem); // P_m || tail of CC
                        memcpy(out + 16 * (m + 1), cc, rem);
                        one(pp, out + 16 * m, t2);
                } else {
                        one(&src[16 * m], cc, t2); // uses the LATER tweak first
                        memcpy(pp, cc, 16);
                        memcpy(pp, &src[16 * (m + 1)], rem);
                        memcpy(out + 16 * (m + 1), cc, rem);
                        one(pp, out + 16 * m, t);
                }
        }
}

} // namespace ref
