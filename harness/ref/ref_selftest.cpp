// Oracle hygiene: the reference implementations must reproduce published known-answer vectors and
// agree with OpenSSL's libcrypto (present on this image) on random inputs, before any library
// result is judged against them.  Exit 0 = references are trustworthy.
#include "ref_aes.hpp"
#include "ref_hash.hpp"
#include "ref_mh.hpp"
#include <cstdio>
#include <cstdlib>
#include <openssl/evp.h>
#include <string>

static int fails = 0;
#define CHECK(c, ...)                                                                                                                      \
        do {                                                                                                                               \
                if (!(c)) { fails++; fprintf(stderr, "ref-selftest FAIL: " __VA_ARGS__); fprintf(stderr, "\n"); }                       \
        } while (0)

static uint64_t rs = 88172645463325252ULL;
static uint64_t rnd()
{
        rs ^= rs << 13; rs ^= rs >> 7; rs ^= rs << 17;
        return rs;
}
static std::vector<uint8_t> rbytes(size_t n)
{
        std::vector<uint8_t> v(n);
        for (auto &b : v) b = (uint8_t) (rnd() >> 24);
        return v;
}

static std::vector<uint8_t> ossl_hash(const char *name, const uint8_t *d, size_t n)
{
        const EVP_MD *md = EVP_get_digestbyname(name);
        std::vector<uint8_t> out;
        if (!md) return out;
        out.resize(EVP_MD_size(md));
        unsigned l = 0;
        EVP_Digest(d, n, out.data(), &l, md, nullptr);
        return out;
}

static std::vector<uint8_t> ossl_cipher(const EVP_CIPHER *c, const uint8_t *key, const uint8_t *iv, const uint8_t *in, size_t n, bool enc, bool pad = false)
{
        EVP_CIPHER_CTX *x = EVP_CIPHER_CTX_new();
        std::vector<uint8_t> out(n + 32);
        int l1 = 0, l2 = 0;
        EVP_CipherInit_ex(x, c, nullptr, key, iv, enc);
        EVP_CIPHER_CTX_set_padding(x, pad);
        EVP_CipherUpdate(x, out.data(), &l1, in, (int) n);
        EVP_CipherFinal_ex(x, out.data() + l1, &l2);
        EVP_CIPHER_CTX_free(x);
        out.resize(l1 + l2);
        return out;
}

int main()
{
        using namespace ref;
        // ---- hashes: KATs ("abc") ...
        struct { int a; const char *ossl; const char *abc; } H[] = {
                { SHA1, "sha1", "a9993e364706816aba3e25717850c26c9cd0d89d" },
                { SHA256, "sha256", "ba7816bf8f01cfea414140de5dae2223b00361a396177a9cb410ff61f20015ad" },
                { SHA512, "sha512",
                  "ddaf35a193617abacc417349ae20413112e6fa4e89a97ea20a9eeee64b55d39a2192992a274fc1a836ba3c23a3feebbd454d4423643ce80e2a9ac94fa54ca49f" },
                { MD5, "md5", "900150983cd24fb0d6963f7d28e17f72" },
                { SM3, "sm3", "66c7f0f462eeedd9d1f2d46bdc10e4e24167c4875cf2f7a2297da02b8f4ba8e0" },
        };
        for (auto &h : H) {
                CHECK(hex(hash(h.a, "abc", 3)) == h.abc, "%s(abc) = %s", h.ossl, hex(hash(h.a, "abc", 3)).c_str());
                int compared = 0;
                for (int i = 0; i < 1000; i++) {
                        size_t n = i < 300 ? (size_t) i : rnd() % 5000;
                        auto d = rbytes(n);
                        auto o = ossl_hash(h.ossl, d.data(), n);
                        if (o.empty()) continue;
                        compared++;
                        // incremental in random pieces
                        Hasher x(h.a);
                        size_t off = 0;
                        while (off < n) {
                                size_t k = rnd() % 200;
                                if (k > n - off) k = n - off;
                                x.update(d.data() + off, k);
                                off += k;
                        }
                        CHECK(x.digest() == o, "%s random len %zu disagrees with libcrypto", h.ossl, n);
                        if (fails) break;
                }
                if (!compared) fprintf(stderr, "ref-selftest note: libcrypto has no %s; KAT only\n", h.ossl);
        }
        // ---- AES FIPS-197 appendix C
        {
                uint8_t key[32], pt[16], ct[16], back[16];
                for (int i = 0; i < 32; i++) key[i] = i;
                for (int i = 0; i < 16; i++) pt[i] = (uint8_t) (i * 0x11);
                const char *exp[3] = { "69c4e0d86a7b0430d8cdb78070b4c55a", "dda97ca4864cdfe06eaf70a0ec0d7191", "8ea2b7ca516745bfeafc49904b496089" };
                int kb[3] = { 128, 192, 256 };
                for (int k = 0; k < 3; k++) {
                        Aes a(key, kb[k]);
                        a.encrypt(pt, ct);
                        CHECK(hex(ct, 16) == exp[k], "AES-%d FIPS-197 vector: %s", kb[k], hex(ct, 16).c_str());
                        a.decrypt(ct, back);
                        CHECK(!memcmp(back, pt, 16), "AES-%d decrypt", kb[k]);
                }
        }
        // ---- CBC / GCM / XTS against libcrypto on random inputs
        for (int it = 0; it < 400 && !fails; it++) {
                int kb = (int[]){ 128, 192, 256 }[it % 3];
                auto key = rbytes(kb / 8);
                auto iv = rbytes(16);
                size_t n = 16 * (1 + rnd() % 40);
                auto pt = rbytes(n);
                Aes a(key.data(), kb);
                std::vector<uint8_t> ct(n), back(n);
                cbc_encrypt(a, iv.data(), pt.data(), ct.data(), n);
                const EVP_CIPHER *c = kb == 128 ? EVP_aes_128_cbc() : kb == 192 ? EVP_aes_192_cbc() : EVP_aes_256_cbc();
                CHECK(ct == ossl_cipher(c, key.data(), iv.data(), pt.data(), n, true), "CBC-%d enc len %zu", kb, n);
                cbc_decrypt(a, iv.data(), ct.data(), back.data(), n);
                CHECK(back == pt, "CBC-%d dec", kb);
        }
        for (int it = 0; it < 400 && !fails; it++) {
                int kb = (it & 1) ? 128 : 256;
                auto key = rbytes(kb / 8);
                auto iv = rbytes(12);
                size_t n = it < 100 ? (size_t) it : rnd() % 3000, an = rnd() % 70;
                auto pt = rbytes(n), aad = rbytes(an);
                Aes a(key.data(), kb);
                GcmResult r = gcm_crypt(a, iv.data(), aad.data(), an, pt.data(), n, false);
                EVP_CIPHER_CTX *x = EVP_CIPHER_CTX_new();
                std::vector<uint8_t> out(n + 16);
                uint8_t tag[16];
                int l = 0;
                EVP_EncryptInit_ex(x, kb == 128 ? EVP_aes_128_gcm() : EVP_aes_256_gcm(), nullptr, nullptr, nullptr);
                EVP_CIPHER_CTX_ctrl(x, EVP_CTRL_GCM_SET_IVLEN, 12, nullptr);
                EVP_EncryptInit_ex(x, nullptr, nullptr, key.data(), iv.data());
                if (an) EVP_EncryptUpdate(x, nullptr, &l, aad.data(), (int) an);
                if (n) EVP_EncryptUpdate(x, out.data(), &l, pt.data(), (int) n);
                EVP_EncryptFinal_ex(x, out.data() + l, &l);
                EVP_CIPHER_CTX_ctrl(x, EVP_CTRL_GCM_GET_TAG, 16, tag);
                EVP_CIPHER_CTX_free(x);
                out.resize(n);
                CHECK(r.out == out, "GCM-%d ciphertext len %zu aad %zu", kb, n, an);
                CHECK(!memcmp(r.tag, tag, 16), "GCM-%d tag len %zu aad %zu", kb, n, an);
                GcmResult d = gcm_crypt(a, iv.data(), aad.data(), an, r.out.data(), n, true);
                CHECK(d.out == pt && !memcmp(d.tag, tag, 16), "GCM-%d decrypt", kb);
        }
        for (int it = 0; it < 400 && !fails; it++) {
                int kb = (it & 1) ? 128 : 256;
                auto k1 = rbytes(kb / 8), k2 = rbytes(kb / 8), tw = rbytes(16);
                size_t n = 16 + (it < 200 ? (size_t) it : rnd() % 4000);
                auto pt = rbytes(n);
                Aes a1(k1.data(), kb), a2(k2.data(), kb);
                std::vector<uint8_t> ct(n), back(n);
                xts_crypt(a2, a1, tw.data(), pt.data(), ct.data(), n, false);
                std::vector<uint8_t> kk(k1);
                kk.insert(kk.end(), k2.begin(), k2.end());
                auto o = ossl_cipher(kb == 128 ? EVP_aes_128_xts() : EVP_aes_256_xts(), kk.data(), tw.data(), pt.data(), n, true);
                CHECK(ct == o, "XTS-%d enc len %zu", kb, n);
                xts_crypt(a2, a1, tw.data(), ct.data(), back.data(), n, true);
                CHECK(back == pt, "XTS-%d dec len %zu", kb, n);
        }
        // ---- IEEE 1619 vector 1 (all-zero keys, tweak 0, 32 zero bytes)
        {
                uint8_t z[32] = { 0 }, tw[16] = { 0 }, ct[32];
                Aes a(z, 128);
                xts_crypt(a, a, tw, z, ct, 32, false);
                CHECK(hex(ct, 32) == "917cf69ebd68b2ec9b9fe9a3eadda692cd43d2f59598ed858c02c2652fbf922e", "IEEE1619 vector 1: %s", hex(ct, 32).c_str());
        }
        // ---- key schedule: dec schedule inverts through the equivalent inverse cipher (structure check)
        {
                auto key = rbytes(32);
                for (int kb : { 128, 192, 256 }) {
                        Aes a(key.data(), kb);
                        auto e = a.enc_schedule(), d = a.dec_schedule();
                        CHECK(e.size() == (size_t) 16 * (a.nr + 1) && d.size() == e.size(), "schedule size");
                        CHECK(!memcmp(&d[0], &e[16 * a.nr], 16) && !memcmp(&d[16 * a.nr], &e[0], 16), "dec schedule ends");
                }
        }
        // ---- murmur3 x64_128 published values
        {
                Murmur3 m0(0);
                CHECK(hex(m0.digest()) == "00000000000000000000000000000000", "murmur3 empty seed 0: %s", hex(m0.digest()).c_str());
                Murmur3 m1(0);
                m1.update("hello", 5);
                CHECK(hex(m1.digest()) == "029bbd41b3a7d8cb191dae486a901e5b", "murmur3 hello: %s", hex(m1.digest()).c_str());
                Murmur3 m2(0);
                const char *s = "The quick brown fox jumps over the lazy dog";
                m2.update(s, 43);
                CHECK(hex(m2.digest()) == "6c1b07bc7bbc4be347939ac4a93c437a", "murmur3 fox: %s", hex(m2.digest()).c_str());
                // split-update invariance of the reference itself
                auto d = rbytes(1000);
                Murmur3 a(77), b(77);
                a.update(d.data(), 1000);
                b.update(d.data(), 7);
                b.update(d.data() + 7, 500);
                b.update(d.data() + 507, 493);
                CHECK(a.digest() == b.digest(), "murmur3 incremental");
        }
        // ---- multi-hash: empty-stream structure check (every segment = SHA compress of the dealt padding block)
        {
                MhRef m(SHA1);
                auto w = m.digest_words();
                CHECK(w.size() == 5, "mh words");
                MhRef a(SHA256), b(SHA256);
                auto d = rbytes(5000);
                a.update(d.data(), 5000);
                b.update(d.data(), 1023);
                b.update(d.data() + 1023, 2);
                b.update(d.data() + 1025, 3975);
                CHECK(a.digest_words() == b.digest_words(), "mh incremental");
        }
        if (fails) {
                fprintf(stderr, "ref-selftest: %d failure(s)\n", fails);
                return 1;
        }
        printf("ref-selftest ok\n");
        return 0;
}
