// Independent reference hashes written from the standards
// (FIPS 180-4: SHA-1/256/512, RFC 1321: MD5, GB/T 32905-2016: SM3).
// Incremental, copyable state so snapshots of a long stream are cheap.
// Nothing here includes or links anything from the repository under test.
#pragma once
#include <cstdint>
#include <cstring>
#include <string>
#include <vector>

namespace ref {

static inline uint32_t rol32(uint32_t x, int n) { return (x << n) | (x >> (32 - n)); }
static inline uint32_t ror32(uint32_t x, int n) { return (x >> n) | (x << (32 - n)); }
static inline uint64_t ror64(uint64_t x, int n) { return (x >> n) | (x << (64 - n)); }
static inline uint32_t be32(const uint8_t *p) { return (uint32_t) p[0] << 24 | (uint32_t) p[1] << 16 | (uint32_t) p[2] << 8 | p[3]; }
static inline uint32_t le32(const uint8_t *p) { return (uint32_t) p[3] << 24 | (uint32_t) p[2] << 16 | (uint32_t) p[1] << 8 | p[0]; }
static inline uint64_t be64(const uint8_t *p) { return (uint64_t) be32(p) << 32 | be32(p + 4); }
static inline void put_be32(uint8_t *p, uint32_t v) { p[0] = v >> 24; p[1] = v >> 16; p[2] = v >> 8; p[3] = v; }
static inline void put_le32(uint8_t *p, uint32_t v) { p[3] = v >> 24; p[2] = v >> 16; p[1] = v >> 8; p[0] = v; }
static inline void put_be64(uint8_t *p, uint64_t v) { put_be32(p, v >> 32); put_be32(p + 4, (uint32_t) v); }
static inline void put_le64(uint8_t *p, uint64_t v) { put_le32(p, (uint32_t) v); put_le32(p + 4, v >> 32); }

// ---------------------------------------------------------------- SHA-1
static inline void sha1_compress(uint32_t h[5], const uint8_t *blk)
{
        uint32_t w[80];
        for (int t = 0; t < 16; t++) w[t] = be32(blk + 4 * t);
        for (int t = 16; t < 80; t++) w[t] = rol32(w[t - 3] ^ w[t - 8] ^ w[t - 14] ^ w[t - 16], 1);
        uint32_t a = h[0], b = h[1], c = h[2], d = h[3], e = h[4];
        for (int t = 0; t < 80; t++) {
                uint32_t f, k;
                if (t < 20) { f = (b & c) | (~b & d); k = 0x5a827999; }
                else if (t < 40) { f = b ^ c ^ d; k = 0x6ed9eba1; }
                else if (t < 60) { f = (b & c) | (b & d) | (c & d); k = 0x8f1bbcdc; }
                else { f = b ^ c ^ d; k = 0xca62c1d6; }
                uint32_t tmp = rol32(a, 5) + f + e + k + w[t];
                e = d; d = c; c = rol32(b, 30); b = a; a = tmp;
        }
        h[0] += a; h[1] += b; h[2] += c; h[3] += d; h[4] += e;
}

// ---------------------------------------------------------------- SHA-256
static const uint32_t K256[64] = {
        0x428a2f98, 0x71374491, 0xb5c0fbcf, 0xe9b5dba5, 0x3956c25b, 0x59f111f1, 0x923f82a4, 0xab1c5ed5, 0xd807aa98, 0x12835b01, 0x243185be,
        0x550c7dc3, 0x72be5d74, 0x80deb1fe, 0x9bdc06a7, 0xc19bf174, 0xe49b69c1, 0xefbe4786, 0x0fc19dc6, 0x240ca1cc, 0x2de92c6f, 0x4a7484aa,
        0x5cb0a9dc, 0x76f988da, 0x983e5152, 0xa831c66d, 0xb00327c8, 0xbf597fc7, 0xc6e00bf3, 0xd5a79147, 0x06ca6351, 0x14292967, 0x27b70a85,
        0x2e1b2138, 0x4d2c6dfc, 0x53380d13, 0x650a7354, 0x766a0abb, 0x81c2c92e, 0x92722c85, 0xa2bfe8a1, 0xa81a664b, 0xc24b8b70, 0xc76c51a3,
        0xd192e819, 0xd6990624, 0xf40e3585, 0x106aa070, 0x19a4c116, 0x1e376c08, 0x2748774c, 0x34b0bcb5, 0x391c0cb3, 0x4ed8aa4a, 0x5b9cca4f,
        0x682e6ff3, 0x748f82ee, 0x78a5636f, 0x84c87814, 0x8cc70208, 0x90befffa, 0xa4506ceb, 0xbef9a3f7, 0xc67178f2
};
static inline void sha256_compress(uint32_t h[8], const uint8_t *blk)
{
        uint32_t w[64];
        for (int t = 0; t < 16; t++) w[t] = be32(blk + 4 * t);
        for (int t = 16; t < 64; t++) {
                uint32_t s0 = ror32(w[t - 15], 7) ^ ror32(w[t - 15], 18) ^ (w[t - 15] >> 3);
                uint32_t s1 = ror32(w[t - 2], 17) ^ ror32(w[t - 2], 19) ^ (w[t - 2] >> 10);
                w[t] = w[t - 16] + s0 + w[t - 7] + s1;
        }
        uint32_t a = h[0], b = h[1], c = h[2], d = h[3], e = h[4], f = h[5], g = h[6], hh = h[7];
        for (int t = 0; t < 64; t++) {
                uint32_t S1 = ror32(e, 6) ^ ror32(e, 11) ^ ror32(e, 25);
                uint32_t ch = (e & f) ^ (~e & g);
                uint32_t t1 = hh + S1 + ch + K256[t] + w[t];
                uint32_t S0 = ror32(a, 2) ^ ror32(a, 13) ^ ror32(a, 22);
                uint32_t mj = (a & b) ^ (a & c) ^ (b & c);
                uint32_t t2 = S0 + mj;
                hh = g; g = f; f = e; e = d + t1; d = c; c = b; b = a; a = t1 + t2;
        }
        h[0] += a; h[1] += b; h[2] += c; h[3] += d; h[4] += e; h[5] += f; h[6] += g; h[7] += hh;
}

// ---------------------------------------------------------------- SHA-512
static const uint64_t K512[80] = {
        0x428a2f98d728ae22ULL, 0x7137449123ef65cdULL, 0xb5c0fbcfec4d3b2fULL, 0xe9b5dba58189dbbcULL, 0x3956c25bf348b538ULL,
        0x59f111f1b605d019ULL, 0x923f82a4af194f9bULL, 0xab1c5ed5da6d8118ULL, 0xd807aa98a3030242ULL, 0x12835b0145706fbeULL,
        0x243185be4ee4b28cULL, 0x550c7dc3d5ffb4e2ULL, 0x72be5d74f27b896fULL, 0x80deb1fe3b1696b1ULL, 0x9bdc06a725c71235ULL,
        0xc19bf174cf692694ULL, 0xe49b69c19ef14ad2ULL, 0xefbe4786384f25e3ULL, 0x0fc19dc68b8cd5b5ULL, 0x240ca1cc77ac9c65ULL,
        0x2de92c6f592b0275ULL, 0x4a7484aa6ea6e483ULL, 0x5cb0a9dcbd41fbd4ULL, 0x76f988da831153b5ULL, 0x983e5152ee66dfabULL,
        0xa831c66d2db43210ULL, 0xb00327c898fb213fULL, 0xbf597fc7beef0ee4ULL, 0xc6e00bf33da88fc2ULL, 0xd5a79147930aa725ULL,
        0x06ca6351e003826fULL, 0x142929670a0e6e70ULL, 0x27b70a8546d22ffcULL, 0x2e1b21385c26c926ULL, 0x4d2c6dfc5ac42aedULL,
        0x53380d139d95b3dfULL, 0x650a73548baf63deULL, 0x766a0abb3c77b2a8ULL, 0x81c2c92e47edaee6ULL, 0x92722c851482353bULL,
        0xa2bfe8a14cf10364ULL, 0xa81a664bbc423001ULL, 0xc24b8b70d0f89791ULL, 0xc76c51a30654be30ULL, 0xd192e819d6ef5218ULL,
        0xd69906245565a910ULL, 0xf40e35855771202aULL, 0x106aa07032bbd1b8ULL, 0x19a4c116b8d2d0c8ULL, 0x1e376c085141ab53ULL,
        0x2748774cdf8eeb99ULL, 0x34b0bcb5e19b48a8ULL, 0x391c0cb3c5c95a63ULL, 0x4ed8aa4ae3418acbULL, 0x5b9cca4f7763e373ULL,
        0x682e6ff3d6b2b8a3ULL, 0x748f82ee5defb2fcULL, 0x78a5636f43172f60ULL, 0x84c87814a1f0ab72ULL, 0x8cc702081a6439ecULL,
        0x90befffa23631e28ULL, 0xa4506cebde82bde9ULL, 0xbef9a3f7b2c67915ULL, 0xc67178f2e372532bULL, 0xca273eceea26619cULL,
        0xd186b8c721c0c207ULL, 0xeada7dd6cde0eb1eULL, 0xf57d4f7fee6ed178ULL, 0x06f067aa72176fbaULL, 0x0a637dc5a2c898a6ULL,
        0x113f9804bef90daeULL, 0x1b710b35131c471bULL, 0x28db77f523047d84ULL, 0x32caab7b40c72493ULL, 0x3c9ebe0a15c9bebcULL,
        0x431d67c49c100d4cULL, 0x4cc5d4becb3e42b6ULL, 0x597f299cfc657e2aULL, 0x5fcb6fab3ad6faecULL, 0x6c44198c4a475817ULL
};
static inline void sha512_compress(uint64_t h[8], const uint8_t *blk)
{
        uint64_t w[80];
        for (int t = 0; t < 16; t++) w[t] = be64(blk + 8 * t);
        for (int t = 16; t < 80; t++) {
                uint64_t s0 = ror64(w[t - 15], 1) ^ ror64(w[t - 15], 8) ^ (w[t - 15] >> 7);
                uint64_t s1 = ror64(w[t - 2], 19) ^ ror64(w[t - 2], 61) ^ (w[t - 2] >> 6);
                w[t] = w[t - 16] + s0 + w[t - 7] + s1;
        }
        uint64_t a = h[0], b = h[1], c = h[2], d = h[3], e = h[4], f = h[5], g = h[6], hh = h[7];
        for (int t = 0; t < 80; t++) {
                uint64_t S1 = ror64(e, 14) ^ ror64(e, 18) ^ ror64(e, 41);
                uint64_t ch = (e & f) ^ (~e & g);
                uint64_t t1 = hh + S1 + ch + K512[t] + w[t];
                uint64_t S0 = ror64(a, 28) ^ ror64(a, 34) ^ ror64(a, 39);
                uint64_t mj = (a & b) ^ (a & c) ^ (b & c);
                uint64_t t2 = S0 + mj;
                hh = g; g = f; f = e; e = d + t1; d = c; c = b; b = a; a = t1 + t2;
        }
        h[0] += a; h[1] += b; h[2] += c; h[3] += d; h[4] += e; h[5] += f; h[6] += g; h[7] += hh;
}

// ---------------------------------------------------------------- MD5
static inline void md5_compress(uint32_t h[4], const uint8_t *blk)
{
        static const uint32_t T[64] = {
                0xd76aa478, 0xe8c7b756, 0x242070db, 0xc1bdceee, 0xf57c0faf, 0x4787c62a, 0xa8304613, 0xfd469501, 0x698098d8, 0x8b44f7af,
                0xffff5bb1, 0x895cd7be, 0x6b901122, 0xfd987193, 0xa679438e, 0x49b40821, 0xf61e2562, 0xc040b340, 0x265e5a51, 0xe9b6c7aa,
                0xd62f105d, 0x02441453, 0xd8a1e681, 0xe7d3fbc8, 0x21e1cde6, 0xc33707d6, 0xf4d50d87, 0x455a14ed, 0xa9e3e905, 0xfcefa3f8,
                0x676f02d9, 0x8d2a4c8a, 0xfffa3942, 0x8771f681, 0x6d9d6122, 0xfde5380c, 0xa4beea44, 0x4bdecfa9, 0xf6bb4b60, 0xbebfbc70,
                0x289b7ec6, 0xeaa127fa, 0xd4ef3085, 0x04881d05, 0xd9d4d039, 0xe6db99e5, 0x1fa27cf8, 0xc4ac5665, 0xf4292244, 0x432aff97,
                0xab9423a7, 0xfc93a039, 0x655b59c3, 0x8f0ccc92, 0xffeff47d, 0x85845dd1, 0x6fa87e4f, 0xfe2ce6e0, 0xa3014314, 0x4e0811a1,
                0xf7537e82, 0xbd3af235, 0x2ad7d2bb, 0xeb86d391
        };
        static const int S[64] = { 7, 12, 17, 22, 7, 12, 17, 22, 7, 12, 17, 22, 7, 12, 17, 22, 5, 9,  14, 20, 5, 9,  14, 20, 5, 9,  14, 20, 5, 9,  14, 20,
                                   4, 11, 16, 23, 4, 11, 16, 23, 4, 11, 16, 23, 4, 11, 16, 23, 6, 10, 15, 21, 6, 10, 15, 21, 6, 10, 15, 21, 6, 10, 15, 21 };
        uint32_t x[16];
        for (int i = 0; i < 16; i++) x[i] = le32(blk + 4 * i);
        uint32_t a = h[0], b = h[1], c = h[2], d = h[3];
        for (int i = 0; i < 64; i++) {
                uint32_t f;
                int g;
                if (i < 16) { f = (b & c) | (~b & d); g = i; }
                else if (i < 32) { f = (d & b) | (~d & c); g = (5 * i + 1) & 15; }
                else if (i < 48) { f = b ^ c ^ d; g = (3 * i + 5) & 15; }
                else { f = c ^ (b | ~d); g = (7 * i) & 15; }
                uint32_t tmp = d;
                d = c; c = b;
                b = b + rol32(a + f + T[i] + x[g], S[i]);
                a = tmp;
        }
        h[0] += a; h[1] += b; h[2] += c; h[3] += d;
}

// ---------------------------------------------------------------- SM3
static inline uint32_t sm3_p0(uint32_t x) { return x ^ rol32(x, 9) ^ rol32(x, 17); }
static inline uint32_t sm3_p1(uint32_t x) { return x ^ rol32(x, 15) ^ rol32(x, 23); }
static inline void sm3_compress(uint32_t v[8], const uint8_t *blk)
{
        uint32_t w[68], w1[64];
        for (int j = 0; j < 16; j++) w[j] = be32(blk + 4 * j);
        for (int j = 16; j < 68; j++) w[j] = sm3_p1(w[j - 16] ^ w[j - 9] ^ rol32(w[j - 3], 15)) ^ rol32(w[j - 13], 7) ^ w[j - 6];
        for (int j = 0; j < 64; j++) w1[j] = w[j] ^ w[j + 4];
        uint32_t a = v[0], b = v[1], c = v[2], d = v[3], e = v[4], f = v[5], g = v[6], h = v[7];
        for (int j = 0; j < 64; j++) {
                uint32_t tj = j < 16 ? 0x79cc4519u : 0x7a879d8au;
                int r = j % 32;
                uint32_t tjr = r ? rol32(tj, r) : tj;
                uint32_t ss1 = rol32(rol32(a, 12) + e + tjr, 7);
                uint32_t ss2 = ss1 ^ rol32(a, 12);
                uint32_t ff = j < 16 ? (a ^ b ^ c) : ((a & b) | (a & c) | (b & c));
                uint32_t gg = j < 16 ? (e ^ f ^ g) : ((e & f) | (~e & g));
                uint32_t tt1 = ff + d + ss2 + w1[j];
                uint32_t tt2 = gg + h + ss1 + w[j];
                d = c; c = rol32(b, 9); b = a; a = tt1;
                h = g; g = rol32(f, 19); f = e; e = sm3_p0(tt2);
        }
        v[0] ^= a; v[1] ^= b; v[2] ^= c; v[3] ^= d; v[4] ^= e; v[5] ^= f; v[6] ^= g; v[7] ^= h;
}

// ---------------------------------------------------------------- generic incremental hasher
enum Algo { SHA1 = 0, SHA256 = 1, SHA512 = 2, MD5 = 3, SM3 = 4, NALGO = 5 };
static inline const char *algo_name(int a)
{
        static const char *n[] = { "sha1", "sha256", "sha512", "md5", "sm3" };
        return n[a];
}
static inline unsigned algo_block(int a) { return a == SHA512 ? 128 : 64; }
static inline unsigned algo_dlen(int a)
{
        static const unsigned d[] = { 20, 32, 64, 16, 32 };
        return d[a];
}

struct Hasher {
        int algo;
        uint32_t h32[8];
        uint64_t h64[8];
        uint8_t buf[128];
        unsigned fill = 0;
        // 128-bit byte count (hi only matters for sha512 and is never reached)
        uint64_t total = 0;

        explicit Hasher(int a = SHA1) : algo(a) { reset(); }
        void reset()
        {
                fill = 0;
                total = 0;
                static const uint32_t i1[5] = { 0x67452301, 0xefcdab89, 0x98badcfe, 0x10325476, 0xc3d2e1f0 };
                static const uint32_t i256[8] = { 0x6a09e667, 0xbb67ae85, 0x3c6ef372, 0xa54ff53a, 0x510e527f, 0x9b05688c, 0x1f83d9ab, 0x5be0cd19 };
                static const uint64_t i512[8] = { 0x6a09e667f3bcc908ULL, 0xbb67ae8584caa73bULL, 0x3c6ef372fe94f82bULL, 0xa54ff53a5f1d36f1ULL,
                                                  0x510e527fade682d1ULL, 0x9b05688c2b3e6c1fULL, 0x1f83d9abfb41bd6bULL, 0x5be0cd19137e2179ULL };
                static const uint32_t isAm3[8] = { 0x7380166f, 0x4914b2b9, 0x172442d7, 0xda8a0600, 0xa96f30bc, 0x163138aa, 0xe38dee4d, 0xb0fb0e4e };
                memset(h32, 0, sizeof h32);
                memset(h64, 0, sizeof h64);
                switch (algo) {
                case SHA1: memcpy(h32, i1, sizeof i1); break;
                case MD5: memcpy(h32, i1, 16); break;
                case SHA256: memcpy(h32, i256, sizeof i256); break;
                case SM3: memcpy(h32, isAm3, sizeof isAm3); break;
                case SHA512: memcpy(h64, i512, sizeof i512); break;
                }
        }
        void compress(const uint8_t *b)
        {
                switch (algo) {
                case SHA1: sha1_compress(h32, b); break;
                case SHA256: sha256_compress(h32, b); break;
                case SHA512: sha512_compress(h64, b); break;
                case MD5: md5_compress(h32, b); break;
                case SM3: sm3_compress(h32, b); break;
                }
        }
        void update(const void *data, size_t len)
        {
                const uint8_t *p = (const uint8_t *) data;
                const unsigned B = algo_block(algo);
                total += len;
                if (fill) {
                        size_t n = B - fill;
                        if (n > len) n = len;
                        memcpy(buf + fill, p, n);
                        fill += n; p += n; len -= n;
                        if (fill == B) { compress(buf); fill = 0; }
                }
                while (len >= B) { compress(p); p += B; len -= B; }
                if (len) { memcpy(buf, p, len); fill = len; }
        }
        // digest in the standard byte order; does not disturb *this
        std::vector<uint8_t> digest() const
        {
                Hasher c = *this;
                const unsigned B = algo_block(algo);
                const unsigned lf = (algo == SHA512) ? 16 : 8;
                uint64_t bits = c.total << 3, bits_hi = c.total >> 61;
                uint8_t pad[256];
                memset(pad, 0, sizeof pad);
                pad[0] = 0x80;
                unsigned padlen = (c.fill < B - lf) ? (B - lf - c.fill) : (2 * B - lf - c.fill);
                uint8_t lenb[16];
                memset(lenb, 0, 16);
                if (algo == MD5) put_le64(lenb, bits);
                else if (algo == SHA512) { put_be64(lenb, bits_hi); put_be64(lenb + 8, bits); }
                else put_be64(lenb, bits);
                uint64_t keep = c.total;
                c.update(pad, padlen);
                c.update(lenb, lf);
                c.total = keep;
                std::vector<uint8_t> out(algo_dlen(algo));
                switch (algo) {
                case SHA1: for (int i = 0; i < 5; i++) put_be32(&out[4 * i], c.h32[i]); break;
                case SHA256:
                case SM3: for (int i = 0; i < 8; i++) put_be32(&out[4 * i], c.h32[i]); break;
                case MD5: for (int i = 0; i < 4; i++) put_le32(&out[4 * i], c.h32[i]); break;
                case SHA512: for (int i = 0; i < 8; i++) put_be64(&out[8 * i], c.h64[i]); break;
                }
                return out;
        }
};

static inline std::vector<uint8_t> hash(int algo, const void *data, size_t len)
{
        Hasher h(algo);
        h.update(data, len);
        return h.digest();
}

static inline std::string hex(const uint8_t *p, size_t n)
{
        static const char *d = "0123456789abcdef";
        std::string s;
        s.reserve(2 * n);
        for (size_t i = 0; i < n; i++) { s.push_back(d[p[i] >> 4]); s.push_back(d[p[i] & 15]); }
        return s;
}
static inline std::string hex(const std::vector<uint8_t> &v) { return hex(v.data(), v.size()); }
static inline std::vector<uint8_t> unhex(const std::string &s)
{
        std::vector<uint8_t> v;
        auto val = [](char c) { return c <= '9' ? c - '0' : (c | 32) - 'a' + 10; };
        for (size_t i = 0; i + 1 < s.size(); i += 2) v.push_back(val(s[i]) << 4 | val(s[i + 1]));
        return v;
}

// Convert the library's in-memory result_digest words to standard digest bytes.
// Conventions taken from the headers and the repository's own tests:
//  SHA-1/SHA-256: uint32 words hold the numeric H values -> big-endian serialisation
//  SHA-512: uint64 words hold the numeric H values -> big-endian serialisation
//  MD5: uint32 words little-endian == the memory image is the standard digest
//  SM3: the library byte-swaps each word once at completion -> memory image is the standard digest
static inline std::vector<uint8_t> digest_from_words(int algo, const void *words)
{
        std::vector<uint8_t> out(algo_dlen(algo));
        switch (algo) {
        case SHA1: for (int i = 0; i < 5; i++) put_be32(&out[4 * i], ((const uint32_t *) words)[i]); break;
        case SHA256: for (int i = 0; i < 8; i++) put_be32(&out[4 * i], ((const uint32_t *) words)[i]); break;
        case SHA512: for (int i = 0; i < 8; i++) put_be64(&out[8 * i], ((const uint64_t *) words)[i]); break;
        case MD5:
        case SM3: memcpy(out.data(), words, out.size()); break;
        }
        return out;
}

} // namespace ref
