#!/usr/bin/env python3
"""Regenerate /verif/MANIFEST.json from tools/propcfg.py (single source of truth) and validate it."""
import json
import os
import sys

VERIF = os.path.dirname(os.path.dirname(os.path.abspath(__file__)))
sys.path.insert(0, os.path.join(VERIF, "tools"))
import propcfg  # noqa: E402


def main():
    checks = []
    for pid in sorted(propcfg.PROPS):
        c = propcfg.PROPS[pid]
        checks.append({
            "property_id": pid,
            "quick_cmd": "./vcheck %s --tier quick" % pid,
            "thorough_cmd": "./vcheck %s --tier thorough" % pid,
            "evidence_file": "/verif/evidence/%s.json" % pid,
            "replay_cmd_template": "./vcheck %s --replay {path}" % pid,
            "engine": c.get("engine", "rapidcheck"),
            "level_claimed": {
                "category": c.get("level", "exploration"),
                "text": c.get("level_text", "Generated-input search against an explicit oracle: " + c["rule"]),
                "design_ref": "DESIGN.md section 4, " + pid,
            },
            "level_note": "; ".join(c.get("assumptions", [])),
            "technique": c.get("technique", "property-based testing (rapidcheck generators + shrinking) against an independent reference oracle"),
        })
    na = [{"property_id": k, "reason": v} for k, v in sorted(getattr(propcfg, "NOT_APPLICABLE", {}).items())]
    m = {
        "version": 1,
        "setup_cmd": "./vcheck --setup",
        "hooks": {
            "guard": "ISAL_CRYPTO_VERIF",
            "enable": "vcheck builds /repo out of tree with `make -f Makefile.unx O=/verif/build/lib/<variant>-<hash> D=\"HAVE_AS_KNOWS_AVX512 ISAL_CRYPTO_VERIF\" [FIPS_MODE=y] lib` "
                      "(the define reaches both gcc and nasm)",
            "baseline_off_cmd": "make -C /repo check",
            "source_commits": getattr(propcfg, "HOOK_COMMITS", []),
            "add_only": True,
        },
        "engines": [
            {"name": "rapidcheck", "path": "/verif/harness/common/pbt.hpp", "serves_properties": sorted(propcfg.PROPS),
             "kind_free_text": "property-based testing: typed generators, stateful abstract command sequences, integrated shrinking; cases are JSON and replay without the library"},
        ],
        "checks": checks,
        "not_applicable": na,
        "notes": "One driver (./vcheck) rebuilds the library from /repo's working tree (content-hash cache), replays saved cases, runs 16 rapidcheck workers, "
                 "re-executes every failure 3x from its replay file, matches against known_findings.jsonl and writes evidence/<id>.json.",
    }
    json.dump(m, open(os.path.join(VERIF, "MANIFEST.json"), "w"), indent=1)
    try:
        import jsonschema
        jsonschema.validate(m, json.load(open("/root/.vp/MANIFEST.schema.json")))
        print("MANIFEST.json valid,", len(checks), "checks")
    except ImportError:
        print("MANIFEST.json written (jsonschema not importable in this python)")


if __name__ == "__main__":
    main()
