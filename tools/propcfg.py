"""Per-property configuration of the vcheck driver: which library variant, which harness source,
case counts per tier (quick tiers are sized by case counts, not by time), the non-triviality rule
as written into the evidence, and the assumptions."""

COMMON_ASSUME = [
    "the reference implementations in harness/ref (validated against published vectors and OpenSSL at start-up) are correct",
    "the host CPU executes every family that is reported as executed; families it cannot execute are listed as skipped",
    "generated search never establishes absence: coverage is the counts, label histograms and samples in this file",
]

PROPS = {
    "C01": {
        "title": "Multi-buffer hash digests equal the standard hash for every submission history",
        "variant": "default",
        "quick": {"cases": 24000},
        "thorough": {"cases": 800000, "opts": ["bigmax=4194304"]},
        "rule": "rapidcheck stateful histories (abstract submit/flush commands resolved against a model of the manager; every family entry point "
                "incl. legacy and isal_ dispatchers, 1..3*lanes+2 contexts, segment lengths around the block size, guard-page placed read-only "
                "segments). Non-trivial = at some point >=2 contexts were in flight AND a completed message had >=2 segments with a cut that is "
                "not a multiple of the block size. Distinct = FNV-1a hash of the canonical JSON of the history.",
        "assumptions": COMMON_ASSUME + ["segments >= 2^29 bytes and totals >= 2^32 are left to C15"],
    },
    "C02": {
        "title": "AES-GCM one-shot output equals NIST SP 800-38D for every length, AAD, tag size",
        "variant": "default",
        "quick": {"cases": 250000, "opts": ["giants=1"]},
        "thorough": {"cases": 6000000, "opts": ["bigmax=1200000", "giants=3"]},
        "rule": "per worker the first case(s) are one-shot DECRYPTS of more than 2^32 bytes (family round-robin; periodic read-only ciphertext, aliasing sink as output): "
                "exact tag (GHASH over the periodic ciphertext evaluated period-wise) and exact last MiB of plaintext. Otherwise "
                "rapidcheck cases over key size x {sse, avx_gen2, avx_gen4, vaes_avx512, legacy, isal_} x {regular, nt} x {enc, dec}; key/IV/AAD/data from a "
                "seed; data length mixture (0..1100 dense, 4080..4112, 65520..65552, up to bigmax), AAD length mixture, tag 8/12/16, in place or not, "
                "every buffer placed against a guard page or shifted to an arbitrary alignment; key data precomputed by the same family. Oracle: "
                "independent SP 800-38D reference (output and tag), library enc/dec round trip. Non-trivial = len not a multiple of 16, or len > 128, "
                "or aad_len not a multiple of 16. Distinct = hash of the case JSON.",
        "assumptions": COMMON_ASSUME,
    },
    "C03": {
        "title": "AES-XTS equals IEEE 1619 incl. ciphertext stealing; expanded-key forms agree",
        "variant": "default",
        "quick": {"cases": 500000},
        "thorough": {"cases": 5000000, "opts": ["huge=1"]},
        "rule": "rapidcheck cases over key size x {sse, avx, vaes, legacy, isal_} x {enc, dec} x {raw, expanded key}; keys/tweak/data from a seed; len mixture "
                "(0..15 for the no-op clause with both buffers made inaccessible, 16..640 dense, 1008..1056, 4080..4128, 65536+-17, up to 40000; thorough "
                "adds lengths at 2^24); in==out or disjoint; data, keys, schedules and tweak guard-page flush or at arbitrary alignment; expanded "
                "schedules come from the reference key expansion. Oracle: independent IEEE 1619 reference, library decrypt(encrypt(x)) = x, expanded = raw via "
                "the reference. Non-trivial = len%16 != 0 or (len/16)%8 != 0. Distinct = hash of the case JSON.",
        "assumptions": COMMON_ASSUME,
    },
    "C04": {
        "title": "AES key expansion equals FIPS-197; AES-CBC equals SP 800-38A, all key sizes",
        "variant": "default",
        "quick": {"cases": 800000, "opts": ["giants=3"]},
        "thorough": {"cases": 3000000, "opts": ["giants=6"]},
        "rule": "per worker the first cases are CBC calls of 2^32 bytes or more, entry round-robin (exactly 2^32 in the first two rounds, which reach every entry): decrypt "
                "checked exactly on the last MiB (decryption is local), encrypt held to the chaining relation D(C_j)^C_{j-1}=P_j over the last MiB (a wrong block early in "
                "the message is not visible to that). Otherwise "
                "rapidcheck cases over {128,192,256} x entry (keyexp {sse, avx, legacy, isal_}, cbc enc {x4, x8, legacy, isal_}, cbc dec {sse, avx, vaes_avx512, "
                "legacy, isal_}); keys/IV/data from a seed; N blocks in {1..80 dense, 255..257, 81..1200, 4096}; in place / out of place; IV and schedules "
                "16-byte aligned as documented, data anywhere. Oracle: reference key schedule compared byte for byte with both arrays the library wrote; "
                "reference CBC. Non-trivial = key expansion case, or N not a multiple of 8 (16 for vaes), or in-place decrypt with N>8. Distinct = hash of the "
                "case JSON (key expansion: entry+seed).",
        "assumptions": COMMON_ASSUME,
    },
    "C07": {
        "title": "AES-GCM streaming (init/update*/finalize) equals one-shot for any segmentation",
        "variant": "default",
        "quick": {"cases": 300000},
        "thorough": {"cases": 4000000, "opts": ["bigpiece=300000"]},
        "rule": "rapidcheck cases: C02 inputs plus a composition of len into 1..12 update lengths (0, 1..15, 16, 17..130, multiples of 16, up to bigpiece) so "
                "that every (carried residue, fill) pair occurs; nt updates only with non-final pieces multiple of 64 and 64-byte aligned buffers. Oracle: output "
                "of every update compared with the SP 800-38D reference as soon as it returns, final tag vs reference, and both vs the library's own one-shot "
                "call of the same family. Non-trivial = >=2 updates with a non-zero carried partial block between them. Distinct = hash of the case JSON.",
        "assumptions": COMMON_ASSUME,
    },
    "C05": {
        "title": "mh_sha1/mh_sha256 equal the multi-hash definition for any update segmentation",
        "variant": "default",
        "quick": {"cases": 400000, "opts": ["giants=1"]},
        "thorough": {"cases": 2000000, "opts": ["bigmax=4194304", "giants=3", "giant_ppm=8"]},
        "rule": "rapidcheck cases over {mh_sha1, mh_sha256} x {base, sse, avx, avx2, avx512, legacy, isal_}; stream from a seed; total length mixture (0, 1..70, "
                "1015..1017, 1023..1025, k*1024+{0,+-1,+-8,+-9}, up to bigmax); partition into 1..9 update calls with cut points biased to 1024-byte boundaries "
                "(zero-length updates included); every update buffer guard-page flush or shifted, read-only. Oracle: reference built from the definition "
                "(SHA padding to 1024, word round-robin to 16 segments, SHA compress per segment, final SHA over the word-major digest matrix); all partitions "
                "and families must agree with it. Non-trivial = >=2 updates and some update starts with a carried partial block and crosses a 1024 boundary.",
        "assumptions": COMMON_ASSUME + ["the multi-hash reference is validated only by agreement of all 7 independent entry families with it (no external oracle exists)",
                                         "giant streams come from a periodic memfd buffer (single updates up to 2^32-1 bytes): every worker starts with one stream just above 2^29 bytes (quick and thorough); streams just below 2^32 bytes are generated in the thorough tier only (~60 per run)"],
    },
    "C10": {
        "title": "mh_sha1_murmur3_x64_128 returns both digests as if computed separately",
        "variant": "default",
        "quick": {"cases": 400000, "opts": ["giants=1"]},
        "thorough": {"cases": 2000000, "opts": ["bigmax=4194304", "giants=3", "giant_ppm=6"]},
        "rule": "as C05 for the stitched function x {base, sse, avx, avx2, avx512, legacy, isal_} with 64-bit seeds (0, 2^32+-1, 2^63, 2^64-1, random). Oracle: mh_sha1 part "
                "= the multi-hash reference; murmur part = independent MurmurHash3_x64_128 with h1=h2=seed over the whole stream (reference checked against "
                "published vectors). Non-trivial = total % 16 != 0 and >=1 update crossing a 1024 boundary.",
        "assumptions": COMMON_ASSUME,
    },
    "C09": {
        "title": "Rolling-hash boundaries depend only on the last w bytes, not on call splitting",
        "variant": "default",
        "quick": {"cases": 40000, "opts": ["giants=8"]},
        "thorough": {"cases": 1500000, "opts": ["giants=200"]},
        "rule": "per worker the first cases are run calls told that 2^31..2^32-1 bytes are available (a periodic read-only 5 GiB mapping; masks of <= 10 bits so that the "
                "first hit is within KiBs), scan implementation round-robin. Otherwise "
                "rapidcheck cases: w in 1..48, w init bytes and a stream (<= 8 KiB) from a seed, mask with 0..12 random bits (or fully random) and trigger = random & mask, "
                "a cyclic list of max_len values (0, <= w, w+1, w+2..w+9, up to 2000) cutting the stream into run calls that resume at the returned offset; scan loop "
                "forced to base/_00/_04 through the dispatch pointer (hook) or left to the dispatcher; isal_ and legacy entry points; buffers start-flush (buffer[-1] "
                "unmapped) or end-flush. Oracle: per call the first position whose from-scratch window hash (frozen copy of the constant table) satisfies "
                "(hash & mask) == trigger, compared with *offset, *match and state->hash; library table compared with the frozen copy; mask_gen against its "
                "closed form. Non-trivial = a hit within the first w bytes of a call, a hit on the last byte of a call, or a call with max_len < w.",
        "assumptions": COMMON_ASSUME + ["window w = 0 and mask_gen shift >= 32 are outside the documented domain and not generated"],
    },
    "C06": {
        "title": "Hash manager never loses, duplicates or strands a job; flush always drains",
        "variant": "default",
        "quick": {"cases": 30000},
        "thorough": {"cases": 1200000, "opts": ["volumes=3"]},
        "rule": "(thorough tier: per worker the first cases are a long-lived manager - one context, flush-driven, 5 segments of ~4 GiB, families round-robin, "
                "conservation only.) "
                "rapidcheck stateful histories as C01 plus rejected submits (8%) and flushes at any point, all families, followed by a drain phase. Model-based "
                "invariants after every call: a returned context is one the model says the manager holds (never returned twice), it is not marked processing, its "
                "status is COMPLETE iff its last accepted segment had LAST else IDLE, held contexts <= documented lanes (synchronous families hold none), flush "
                "returns NULL iff nothing is held, <= |held| flushes drain, user_data / read-only caller buffers / every context not involved in the call are "
                "unchanged, every accepted submission is handed back exactly once. Non-trivial = a flush while >=2 contexts are held or a submit that returns a "
                "context other than the one submitted.",
        "assumptions": COMMON_ASSUME + ["documented lane counts per family are taken from the headers (4/4/8/16, SHA-512 2/2/4/8, MD5 8/8/16/32, sse_ni 2, avx512_ni 16); "
                                         "for the dispatchers the bound is the struct's *_MAX_LANES"],
    },
    "C11": {
        "title": "A rejected hash submit changes nothing and poisons no later call",
        "variant": "default",
        "quick": {"cases": 30000},
        "thorough": {"cases": 1200000},
        "rule": "rapidcheck stateful histories with 25% rejected submits of three kinds (flags with bits outside 0..3 on any context; any submit on a context in flight; "
                "UPDATE/LAST on a completed context) injected at any manager state, followed by valid continuations incl. continuing/restarting the rejected context; "
                "isal_ API (return codes) and every family entry point. Oracle: the call hands the context straight back with an error code from the applicable "
                "reasons; byte images of the manager, of every other context (in flight too) and of the rejected context except its error field are identical "
                "before/after; every later valid isal_ call returns 0 and no context handed back for a valid submission carries an error; all digests equal the "
                "reference. Non-trivial = a rejection while >=1 other job is in flight, followed by >=2 valid calls.",
        "assumptions": COMMON_ASSUME + ["when two rejection reasons apply either code is accepted (the documentation gives no precedence)"],
    },
    "C14": {
        "title": "SAFE_DATA: no key material left in registers or dead stack after AES calls",
        "variant": "default",
        "asm": ["common/tramp.asm"],
        "quick": {"cases": 600000},
        "thorough": {"cases": 20000000},
        "rule": "rapidcheck cases over every AES entry point x family (key expansion, GCM pre/precomp/init/update/finalize/one-shot incl. nt, CBC enc/dec, XTS raw and "
                "expanded; family symbols, legacy and isal_ dispatchers) x length classes (each unrolled exit path) with random keys/IV/tweak. Each call goes through the "
                "assembly trampoline on a private stack whose 64 KiB below the call are pattern-filled. Oracle: the secret set (16-byte chunks of the raw key, every "
                "enc/dec round key, H=E_K(0) and H^2..H^48 in both byte orders, every 16-byte entry of the family's precomputed hash-key table, E_K2(tweak); "
                "low-entropy values excluded) must not occur at any byte offset of zmm0-31 as captured right after the return, nor anywhere in the dead stack the "
                "callee touched. Non-trivial = every case; distinct = (entry, family, exit-path class).",
        "assumptions": COMMON_ASSUME + ["general-purpose registers are outside the statement and not judged", "requires AVX-512 on the host to capture zmm16-31/k0-7 "
                                        "(reported as not covered otherwise)", "partial values (e.g. later tweaks, counter blocks) are not demanded by the statement"],
    },
    "C13": {
        "title": "FIPS build fails closed: no approved crypto after a failed self-test",
        "variant": "fips",
        "ldflags": ["-Wl,--wrap=_aes_self_tests", "-Wl,--wrap=_sha_self_tests"],
        "quick": {"cases": 800000},
        "thorough": {"cases": 30000000},
        "rule": "FIPS_MODE build; rapidcheck cases over the catalog of all isal_ entry points (cross-checked against nm: unknown ones are reported as uncovered) x "
                "self-test state {failed, passed, not yet run + injected failing self test, not yet run + passing self test, running on another thread which then publishes "
                "fail, ... then publishes pass (the call is made on a second real thread and has to wait)} x otherwise valid random arguments; XTS "
                "additionally with key1 == key2 (same pointer / equal copy, raw and pre-expanded) and with a second key that is a copy of the first with ONE flipped byte "
                "(must be accepted). An injected failure names the failing group and uses the value that group really returns (AES 1, SHA -1). The (entry x state) grid is covered completely by sampling "
                "(>=200 argument draws per pair in the quick tier). Oracle: approved entry in a failing state returns ISAL_CRYPTO_ERR_SELF_TEST and every "
                "output/object byte equals its prefill; in a not-yet-run state the (link-time wrapped) self tests are entered exactly once and before any output byte "
                "changed, and the verdict sticks (the injected failure is removed, a later isal_self_tests() must report the same verdict without running the tests "
                "again); passed state returns 0; non-approved entries always return FIPS_INVALID_ALGO with outputs untouched; XTS with "
                "identical keys is refused with outputs untouched. Non-trivial = state != passed; distinct = (entry, state, key-equality mode, length class).",
        "assumptions": COMMON_ASSUME + ["objects needed by a valid call (manager, key data, GCM context) are prepared through the internal un-gated entry points",
                                        "for the decrypt expanded-key XTS entry points equal raw keys cannot be recognised from the (different) schedules; the statement "
                                        "quantifies over identical pre-expanded arrays, which is what is generated"],
    },
    "C16": {
        "title": "Invalid arguments are refused without side effects; legacy and isal_ APIs agree",
        "variant": "default",
        "quick": {"cases": 400000},
        "thorough": {"cases": 12000000},
        "rule": "rapidcheck cases over the catalog of all isal_ entry points in three modes: (1) a random non-empty subset of the pointer arguments set to NULL "
                "(only NULLs the documentation defines; data pointers with a zero length etc. are left out) with every other pointer argument made inaccessible "
                "(PROT_NONE) and every output snapshotted; (2) each scalar argument at the boundary values of its documented domain (CBC/XTS/GCM lengths, tag "
                "lengths, rolling-hash window), optionally combined with NULLs; (3) fully valid random calls mirrored through the deprecated legacy entry point. "
                "Oracle: spec table transcribed from the headers and the error enum: >=1 invalid argument => non-zero code drawn from the codes of the invalid "
                "arguments present, no fault, all outputs unchanged; boundary values inside the domain and valid calls => 0, no fault; legacy result == isal_ "
                "result. Non-trivial = >=2 invalid arguments, a scalar boundary case, or a legacy differential. Distinct = hash of the case JSON.",
        "assumptions": COMMON_ASSUME + ["invalid hash flags are the documented exception (context returned with its error field set) and are judged by C11",
                                        "valid calls at len = GCM max (2^39-257) cannot be executed (no such buffer); only the rejecting side max+1 is executed",
                                        "values the documentation leaves open (rolling-hash w = 0, NULL data pointer with zero length, mask_gen shift >= 32) are not generated"],
    },
    "C19": {
        "title": "Every entry point preserves the callee-saved machine state of the SysV ABI",
        "variant": "default",
        "asm": ["common/tramp.asm"],
        "quick": {"cases": 500000},
        "thorough": {"cases": 6000000},
        "rule": "rapidcheck cases of seven kinds, every library call routed through the assembly trampoline (chosen sentinels in rbx/rbp/r12-r15, random caller-saved "
                "registers, flags, zmm/k state; private stack with canary words above the call frame): hash submit/flush histories (valid and rejected submits) on "
                "every ctx family + legacy + isal_; multi-hash/murmur init/update/finalize on every family; every AES entry point x family x exit-path class (C14's "
                "operation table; XTS also with 0..15 bytes, the sub-block early return); every catalog isal_/legacy entry with valid arguments and with a NULL first "
                "pointer (error-return path); the three rolling-hash scan loops with generated (idx, max) remainders; every job-manager level family "
                "(_<algo>_mb_mgr_{init,submit,flush}_<fam>, _sha512_sb_mgr_*_sse4) with 0..2*lanes+1 jobs then flushes; every multi-hash / murmur block and tail "
                "function called directly. One case in five first re-arms every dispatch pointer (hook) so the call runs through the first-call "
                "resolver. Oracle after every return: rsp as expected, rbx/rbp/r12-r15 equal their sentinels, DF clear, MXCSR control bits and x87 control word "
                "unchanged, canaries above the frame intact. Non-trivial = every case; distinct = (sequence of symbols called, exit-path class, via resolver or not).",
        "assumptions": COMMON_ASSUME + ["kernels with private register conventions (sha*_mb_x*, *_ni_x1/x2, *_opt_x1, md5_mb_x*) are not SysV entry points and are exercised "
                                        "only through their managers"],
    },
    "C20": {
        "title": "Results depend on declared inputs only, never on stale memory or registers",
        "variant": "default",
        "asm": ["common/tramp.asm"],
        "quick": {"cases": 100000},
        "thorough": {"cases": 4000000},
        "rule": "rapidcheck cases of four kinds (hash submit/flush histories on every family; multi-hash/murmur update partitions on every family; every AES entry "
                "point x family x exit-path class followed by a continuation that uses the produced object; every catalog isal_/legacy entry followed by its semantic "
                "result extractor). Each case is executed twice with identical declared inputs and complementary hidden state: pre-fill of every output buffer and of "
                "every not-yet-initialised object (manager, context, key data, GCM context, mh/rolling state) P vs ~P, random vs different random caller-saved "
                "GPRs beyond the arguments / zmm0-31 / k0-7 / arithmetic flags at entry of every call (trampoline), dead-stack fill 0xD7 vs 0x28. Oracle: byte "
                "equality of every observable (outputs, tags, digests, return values, which context is handed back when, status/error/total length, results of the "
                "continuation); opaque internals are compared through behaviour only. Non-trivial = the operation leaves part of an object unwritten or runs with "
                "idle lanes / partial blocks. Distinct = hash of the case JSON.",
        "assumptions": COMMON_ASSUME + ["the order in which a manager hands contexts back is treated as observable behaviour and must not depend on hidden state"],
    },
    "C08": {
        "title": "No access outside caller-supplied byte ranges; inputs never modified",
        "variant": "default",
        "quick": {"cases": 250000, "opts": ["wraps=1"]},
        "thorough": {"cases": 10000000, "opts": ["bigmax=2000000", "wraps=2"]},
        "rule": "rapidcheck cases over every public operation and every family entry point: hash submit/flush histories (28 ctx families + legacy + isal_), multi-hash and "
                "murmur update/finalize (all families), every AES entry point x family (key expansion, GCM pre/precomp/init/update/finalize/one-shot incl. nt, CBC, "
                "XTS) with per-buffer placement bits, GCM streaming with every update piece in its own exactly-sized buffer, rolling hash init/reset/run with the scan "
                "loop forced to base/_00/_04, and every catalog isal_/legacy entry incl. zero lengths. Every buffer lives in its own mapping between two PROT_NONE "
                "pages, end-flush (2/3) or start-flush, at the documented alignment only; inputs and constant key data are mapped read-only; the slack around each "
                "buffer holds position-dependent canaries. Oracle: no SIGSEGV/SIGBUS (attributed to buffer and side), canaries intact, inputs unmodified (a write "
                "faults). Per worker the first case(s) are a multi-hash update of 2^32-q bytes (a periodic read-only 5 GiB mapping) onto 1..1023 carried bytes, "
                "q <= carried, family round-robin: the largest single update the signature allows. "
                "Non-trivial = a data length that is not a multiple of 64 with an end-flush input or output (a tail path next to an unmapped page).",
        "assumptions": COMMON_ASSUME + ["an over-read that stays inside the same page on the non-flush side is invisible; both sides are alternated and the end-flush side "
                                        "(where vector tails over-read) gets most cases", "lengths above a few MiB are sampled sparsely (thorough tier)"],
    },
    "C15": {
        "title": "Hash length accounting stays exact across the 2^29- and 2^32-byte totals",
        "variant": "default",
        "quick": {"cases": 192, "opts": ["p32=10", "full32=1"], "budget_s": 1200},
        "thorough": {"cases": 480, "opts": ["p32=50", "full32=1"], "budget_s": 6000},
        "rule": "rapidcheck cases over algorithm x family: every worker owns a contiguous slice of the algorithm-sorted family list (28 ctx families + legacy + "
                "isal_) and takes its families round-robin, so EVERY family is exercised in every run, each with four shapes in turn: (0) one job across 2^32 as described "
                "next; (1) twins: 2..3 jobs that each have 2^30 bytes or more outstanding at the same time; (2) crowd: a full manager of short jobs with distinct block "
                "counts plus one segment of 2^31..2^32-1 bytes, the shortest job two times in three at a power-of-two lane distance from it; (3) placement sweep: "
                "that crowd for every giant lane x shortest job at every power-of-two lane distance, each round stopped when the short jobs are done (their digests "
                "are judged). Shape 0: 1..3 contexts of one "
                "manager are each fed a periodic stream (1 MiB block mapped back to back via memfd, so single segments up to 2^32-1 bytes exist); the first context of "
                "every case crosses 2^32 or 2^32+2^29, the others 2^29 (or 2^32 with p32 percent); total = threshold + residue from {0, 1, B-9, B-8, B-1, B, B+1, 17, "
                "3B+5} (+ optional 0..5000); segmentation = large segments (< 2^32 each) up to shortly before the threshold, then 1..5 small segments that walk across "
                "it at odd residues. Oracle: digest == reference digest of the stream at that total (one reference pass per algorithm with 64 MiB snapshots), "
                "total_length == sum of the segment lengths, status COMPLETE. Non-trivial = every job (total >= 2^29); distinct = hash of the case JSON.",
        "assumptions": COMMON_ASSUME + ["every case hashes >= 4.3 GiB per context through the library and once per algorithm through the reference; residues and segmentations are sampled (3 per family in the quick tier)"],
    },
    "C12": {
        "title": "Dispatch binds only to code the CPU/OS can execute, one family per object",
        "variant": "default",
        "isaclass": True,
        "quick": {"cases": 200000},
        "thorough": {"cases": 4194304, "opts": ["exhaustive=1"], "exhaustive": True},
        "level": "exploration",
        "rule": "virtual CPUID/XCR0 assignments over 22 bits (SSE4.1, SSE4.2, OSXSAVE, AVX, AVX2, AVX-512 F/DQ/CD/BW/VL, SHA, VBMI2, GFNI, VAES, VPCLMULQDQ, VNNI, BITALG, "
                "VPOPCNTDQ, Avoton model id, XCR0 SSE / YMM / opmask+ZMM) restricted to architecturally consistent ones; quick: 17 product-style profiles +- every "
                "single bit plus random consistent assignments built by construction; thorough: ALL consistent assignments (complete enumeration of the 2^22 raw "
                "space, split over the workers). For each assignment every dispatched entry point (hook: <entry>_dispatched/_mbinit/_dispatch_init) is re-armed and its "
                "real resolver executed under the virtual CPU. Oracle: xgetbv never executed with OSXSAVE=0; every judged ISA class needed by the code reachable from "
                "the bound target (tools/isaclass.py: objdump call-graph closure + GNU as re-assembly per instruction shape) is offered by the assignment incl. the "
                "XCR0 state, except the documented SSE4.1 minimum of entries without a base implementation; entry points of one object bind to one family; the pointer "
                "leaves the first-call stub and a later real call under a different virtual CPU neither re-resolves nor changes it. Non-trivial = assignment with a "
                "partially present feature group. Distinct = the assignment.",
        "assumptions": COMMON_ASSUME + ["instruction classes come from binutils' tables (trusted)", "classes the dispatchers cannot observe (AES-NI, PCLMULQDQ, SSSE3, BMI1/2, "
                                        "POPCNT, FMA) are reported in the evidence notes, not judged", "indirect calls other than the dispatch pointers do not occur in the library"],
    },
    "C17": {
        "title": "FIPS self-tests run exactly once under any interleaving; nobody passes early",
        "variant": "fips",
        "ldflags": ["-Wl,--wrap=_aes_self_tests", "-Wl,--wrap=_sha_self_tests", "-Wl,--wrap=_sha1_ctx_mgr_init", "-Wl,--wrap=usleep"],
        # the second implementation of the protocol (aarch64 / base-alias builds): compiled from the tree next to the x86 one
        "repo_c": [{"src": "fips/self_tests_generic.c", "defs": ["FIPS_MODE"], "globalize": {"self_tests_status": "c17g_status"},
                    "rename": {"isal_self_tests": "c17g_isal_self_tests"}}],
        "quick": {"cases": 40000},
        "thorough": {"cases": 1500000, "opts": ["enum=1"], "budget_s": 5400},
        "technique": "property-based testing of schedules: deterministic instruction-level scheduler (x86 trap flag, logical threads as contexts in one OS thread), "
                     "rapidcheck-generated and shrinkable schedules, plus generated rounds of simultaneous first calls by real threads; history invariants as oracle",
        "rule": "FIPS_MODE build. rapidcheck cases: 1..5 logical threads, each making its first call through isal_self_tests() or through a cheap approved entry "
                "(isal_sha1_ctx_mgr_init) and then a second isal_self_tests(); self-test outcome in {pass, AES group fails (1), SHA group fails (-1), both}; the link-time wrappers of the two self-test groups run the real body (one atomic "
                "step), then spin 0..40 yield points and overlay the generated outcome; schedule = either a byte string of (thread, burst length) decisions followed by a fair round-robin tail, or a run-to-yield schedule "
                "with 0..4 generated preemption points. Every instruction of the real check/claim/run/publish code is single-stepped and the generated schedule "
                "decides which logical thread executes the next instruction. Oracle (history invariants): the AES and SHA self tests are entered exactly once; no "
                "thread returns success, and the wrapped approved entry does not start its work, before the self tests have finished and the verdict is published; "
                "all first and second calls return the same verdict (0 / ISAL_CRYPTO_ERR_SELF_TEST); every thread finishes within the step bound under the fair "
                "tail. Non-trivial = at some step >=2 threads were inside asm_check_self_tests_status, or a loser reached the spin loop before the publish. "
                "One case in four runs the same schedule kinds against fips/self_tests_generic.c instead (the C11-atomics implementation used by the aarch64 and "
                "base-alias builds, compiled from the tree with -DFIPS_MODE, its usleep() wait a yield point). "
                "One case in twelve is a parallel case instead: 2..6 real OS threads released together by a spin barrier with generated per-thread skews "
                "(0..40 pause iterations, rotated each round), 20..400 rounds per case, every round from NOT_DONE, same oracle; non-trivial there = a round in which "
                ">=2 threads read an unpublished status right before their call. "
                "Distinct = hash of the case JSON. The thorough tier additionally enumerates EVERY run-to-yield schedule with at most two preemptions (position x "
                "target thread) for 12 two-thread and 4 three-thread combinations of (entry kinds, outcome, yield points): about 7.5 x 10^5 schedules, complete for that bound.",
        "assumptions": COMMON_ASSUME + ["sequential consistency: x86-TSO store buffering is not modelled (the protocol's only plain store is the final publish, after "
                                        "which the publisher reads nothing back)",
                                        "parallel cases: the interleaving is chosen by the hardware, not by the generator; they decide atomicity of single "
                                        "instructions only and are confirmed by repeated rounds, not by a deterministic replay"],
    },
    "C18": {
        "title": "No hidden shared state: independent objects are usable from different threads",
        "variant": "default",
        "asm": ["common/tramp.asm"],
        "renamed_lib": True,
        "quick": {"cases": 12000, "workers": 4, "opts": ["maxthreads=8"]},
        "thorough": {"cases": 400000, "workers": 4, "opts": ["maxthreads=16"]},
        "rule": "rapidcheck cases in three modes over the operation table of C20 (hash histories, multi-hash partitions, every AES entry point with continuation, "
                "every catalog entry; all families). Snapshot mode: 1..6 operations run on one thread; the library (linked as one relocatable object whose .data/.bss/"
                ".data.rel.local are renamed so that __start_/__stop_ symbols delimit its writable static storage) is snapshotted before and compared after every "
                "operation: no byte may change except inside the <entry>_dispatched pointers (hook), optionally after re-arming all of them. Thread mode: 2..8 (thorough "
                "16) real threads, each with 1..4 operations on its own objects, run first sequentially and then concurrently from a barrier, in half of the cases "
                "after re-arming every dispatch pointer so that the first calls race through the resolvers. Hammer mode: 2..8 (16) threads each prepare ONE call of "
                "the same family / operation / entry point (every hash ctx family, every multi-hash family, every AES entry point x family, every catalog entry) on "
                "their own objects and data and repeat it 50..1500 times in a tight loop (objects restored by memcpy, nothing allocated in the loop) so that executions "
                "of the same library code overlap in time. Oracle: every thread's observables (outputs, tags, digests, return values, hand-back order) equal its "
                "run-alone observables, every in-run reference oracle still holds, final bindings equal the sequential bindings. Non-trivial = operations of >=3 "
                "different units in the case, or a hammer case. Distinct = hash of the case JSON.",
        "assumptions": COMMON_ASSUME + ["a race needs the colliding writes to be observable in results or in the snapshot; TSan cannot see assembly and is not used",
                                        "the FIPS self-test verdict word exists only in the FIPS variant (C17 covers it); this check runs the default variant",
                                        "4 worker processes x up to 16 threads keep the 16 cores busy without oversubscribing the scheduler"],
    },
}

# properties not (yet) claimed; kept current as checks are added
NOT_APPLICABLE = {k: "check not built yet in this session (planned, see DESIGN.md section 4)" for k in
                  ["C%02d" % i for i in range(1, 21)] if k not in PROPS}
HOOK_COMMITS = ["fc8701b"]
