"""Per-property configuration of the vcheck driver: which library variant, which harness source,
case counts per tier (quick tiers are sized by case counts, not by time), the non-triviality rule
as written into the evidence, and the assumptions."""

COMMON_ASSUME = [
    "the reference implementations in harness/ref (validated against published vectors and OpenSSL at start-up) are correct",
    "the host CPU executes every family that is reported as executed; families it cannot execute are listed as skipped",
    "generated search never establishes absence: coverage is the counts, label histograms and samples in this file",
]

PROPS = {
    "C01": {
        "title": "Multi-buffer hash digests equal the standard hash for every submission history",
        "variant": "default",
        "quick": {"cases": 24000},
        "thorough": {"cases": 800000, "opts": ["bigmax=4194304"]},
        "rule": "rapidcheck stateful histories (abstract submit/flush commands resolved against a model of the manager; every family entry point "
                "incl. legacy and isal_ dispatchers, 1..3*lanes+2 contexts, segment lengths around the block size, guard-page placed read-only "
                "segments). Non-trivial = at some point >=2 contexts were in flight AND a completed message had >=2 segments with a cut that is "
                "not a multiple of the block size. Distinct = FNV-1a hash of the canonical JSON of the history.",
        "assumptions": COMMON_ASSUME + ["segments >= 2^29 bytes and totals >= 2^32 are left to C15"],
    },
}

# properties not (yet) claimed; kept current as checks are added
NOT_APPLICABLE = {k: "check not built yet in this session (planned, see DESIGN.md section 4)" for k in
                  ["C%02d" % i for i in range(1, 21)] if k not in PROPS}
HOOK_COMMITS = []
