#!/usr/bin/env python3
"""Confirm a seeded change produced by an independent sub-agent and run our checks against it.

  seedcheck.py <property id> <agent worktree> [--checks C01,C08] [--tier quick] [--name suffix]

Steps (all recorded in /verif/seeded/<id>[-suffix]/meta.json):
 1. the patch applies to a fresh scratch worktree of /repo HEAD, the library builds and the repository's own
    test-suite (autotools `make check`, the pinned baseline) still passes 37/37;
 2. the agent's demonstration fails with the change and passes without it (run in the agent's worktree);
 3. the patch is applied to /repo (git apply), the listed checks are run, /repo is restored (git checkout -- .);
    for each check: detected (exit 1 + VIOLATION line) or missed.
Scratch worktrees are removed afterwards.

  --benign: the change is meant to preserve behaviour; results go to /verif/benign/<id>/ and every check is expected
            to exit 0 without a VIOLATION line ("silent").
"""
import json
import os
import re
import shutil
import subprocess
import sys
import time

VERIF = os.path.dirname(os.path.dirname(os.path.abspath(__file__)))
REPO = "/repo"


def sh(cmd, cwd=None, timeout=3600):
    p = subprocess.run(cmd, shell=True, cwd=cwd, stdout=subprocess.PIPE, stderr=subprocess.STDOUT, text=True, timeout=timeout)
    return p.returncode, p.stdout


def main():
    pid = sys.argv[1]
    wt = sys.argv[2]
    checks = [pid]
    tier = "quick"
    name = ""
    skip_baseline = False
    benign = "--benign" in sys.argv  # a behaviour-preserving change: the checks must stay silent
    for i, a in enumerate(sys.argv):
        if a == "--checks":
            checks = sys.argv[i + 1].split(",")
        if a == "--tier":
            tier = sys.argv[i + 1]
        if a == "--name":
            name = "-" + sys.argv[i + 1]
        if a == "--skip-baseline":
            skip_baseline = True
    out = os.path.join(VERIF, "benign" if benign else "seeded", pid + name)
    os.makedirs(out, exist_ok=True)
    so = os.path.join(wt, "seed_out")
    meta = {"property": pid, "agent_worktree": wt, "ran": []}
    # regenerate the patch from the worktree itself (authoritative), restricted to tracked source files
    rc, diff = sh("git diff -- . ':(exclude)seed_out' ':(exclude)obj'", cwd=wt)
    if not diff.strip():
        print("no source change in", wt)
        return 2
    open(os.path.join(out, "patch.diff"), "w").write(diff)
    for f in os.listdir(so) if os.path.isdir(so) else []:
        if f == "patch.diff":
            continue
        src = os.path.join(so, f)
        if os.path.isfile(src) and os.path.getsize(src) < 300000:
            shutil.copy(src, os.path.join(out, f))
    if os.path.exists(os.path.join(so, "meta.txt")):
        meta["agent_description"] = open(os.path.join(so, "meta.txt")).read()
    meta["files_changed"] = re.findall(r"^diff --git a/(\S+)", diff, re.M)

    # ---- 1. baseline on a fresh worktree
    if not skip_baseline:
        chk = "/tmp/chk_%s%s" % (pid, name)
        sh("git -C %s worktree remove --force %s" % (REPO, chk))
        rc, o = sh("git -C %s worktree add -q %s HEAD" % (REPO, chk))
        rc, o = sh("git apply %s" % os.path.join(out, "patch.diff"), cwd=chk)
        if rc:
            meta["applies"] = False
            print("patch does not apply:", o)
        else:
            meta["applies"] = True
            t0 = time.time()
            rc, o = sh("./autogen.sh >/dev/null 2>&1; ./configure CFLAGS=-Wno-error >/dev/null 2>&1; make -j16 check 2>&1 | grep -E '^# (TOTAL|PASS|FAIL|ERROR)'", cwd=chk)
            m = dict(re.findall(r"^# (\w+):\s+(\d+)", o, re.M))
            meta["baseline_with_change"] = m
            meta["ran"].append("fresh worktree + patch: ./autogen.sh && ./configure CFLAGS=-Wno-error && make -j16 check -> %s (%.0fs)" % (m, time.time() - t0))
        sh("git -C %s worktree remove --force %s" % (REPO, chk))

    # ---- 2. demonstration in the agent's worktree
    demo = os.path.join(so, "demo.sh")
    if os.path.exists(demo) and not benign:
        # (git stash is shared between worktrees: revert / re-apply with the patch instead)
        rc1, o1 = sh("bash seed_out/demo.sh", cwd=wt, timeout=1800)
        pf = os.path.join(out, "patch.diff")
        sh("git apply -R %s" % pf, cwd=wt)
        rc0, o0 = sh("bash seed_out/demo.sh", cwd=wt, timeout=1800)
        sh("git apply %s" % pf, cwd=wt)
        meta["demo_exit_with_change"] = rc1
        meta["demo_exit_without_change"] = rc0
        meta["demo_tail_with_change"] = o1[-600:]
        meta["ran"].append("agent worktree: demo.sh with change -> exit %d; with the patch reversed -> exit %d" % (rc1, rc0))

    # ---- 3. our checks against the change
    rc, o = sh("git -C %s status --porcelain --untracked-files=no" % REPO)
    if o.strip():
        print("refusing: /repo has uncommitted tracked changes:\n", o)
        return 3
    rc, o = sh("git -C %s apply %s" % (REPO, os.path.join(out, "patch.diff")))
    if rc:
        print("patch does not apply to /repo:", o)
        return 3
    res = {}
    try:
        for c in checks:
            t0 = time.time()
            rc, o = sh("./vcheck %s --tier %s --no-evidence" % (c, tier), cwd=VERIF, timeout=7200)
            viol = re.findall(r"^VIOLATION property=\S+ replay=(\S+)", o, re.M)
            keys = re.findall(r"violation key=([^:]+):\s*(.*)", o)
            res[c] = {"exit": rc, "detected": rc == 1 and bool(viol), "silent": rc == 0 and not viol, "tail": "" if rc == 0 else o[-1500:], "violations": [{"key": k, "message": m[:300]} for k, m in keys[:4]], "wall_s": round(time.time() - t0, 1)}
            meta["ran"].append("/repo + patch: ./vcheck %s --tier %s -> exit %d, %d VIOLATION line(s)" % (c, tier, rc, len(viol)))
            # keep one replay as documentation of the detection
            if viol and os.path.exists(viol[0]):
                shutil.copy(viol[0], os.path.join(out, "detected-by-%s.json" % c))
    finally:
        sh("git -C %s checkout -- ." % REPO)
        shutil.rmtree(os.path.join(VERIF, "replays", "found"), ignore_errors=True)
    meta["checks"] = res
    json.dump(meta, open(os.path.join(out, "meta.json"), "w"), indent=1)
    print(json.dumps({k: v for k, v in meta.items() if k in ("baseline_with_change", "demo_exit_with_change", "demo_exit_without_change", "checks")}, indent=1))
    return 0


if __name__ == "__main__":
    sys.exit(main())
