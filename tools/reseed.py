#!/usr/bin/env python3
"""Regression of the checks themselves: re-apply every kept seeded change to /repo and re-run the check(s) that had detected it.

  reseed.py [pattern]      e.g. reseed.py 'C1*'   (default: all of seeded/)

For each seeded/<dir>: git apply patch.diff (skipped with a note if it no longer applies - some patches touch lines that a later
fix: commit changed), run the checks whose meta.json says "detected" (their recorded tier), git checkout -- .  Prints one line per seed;
exit 1 if a seed that applied is no longer detected by any of its checks.  /repo must be clean.
"""
import fnmatch
import json
import os
import re
import subprocess
import sys

VERIF = os.path.dirname(os.path.dirname(os.path.abspath(__file__)))
REPO = "/repo"


def sh(cmd, cwd=None, timeout=7200):
    p = subprocess.run(cmd, shell=True, cwd=cwd, stdout=subprocess.PIPE, stderr=subprocess.STDOUT, text=True, timeout=timeout)
    return p.returncode, p.stdout


def main():
    pat = sys.argv[1] if len(sys.argv) > 1 else "*"
    rc, o = sh("git -C %s status --porcelain --untracked-files=no" % REPO)
    if o.strip():
        print("refusing: /repo has uncommitted tracked changes")
        return 3
    lost = 0
    out = []
    for d in sorted(os.listdir(os.path.join(VERIF, "seeded"))):
        if not fnmatch.fnmatch(d, pat):
            continue
        sd = os.path.join(VERIF, "seeded", d)
        try:
            meta = json.load(open(os.path.join(sd, "meta.json")))
        except Exception:
            continue
        checks = [c for c, v in meta.get("checks", {}).items() if v.get("detected")]
        tier = "thorough" if meta.get("tier_note") else "quick"
        if not checks:
            out.append((d, "no detecting check recorded"))
            continue
        rc, o = sh("git -C %s apply %s" % (REPO, os.path.join(sd, "patch.diff")))
        if rc:
            out.append((d, "patch no longer applies (a later fix: commit changed these lines) - skipped"))
            print("%-8s %s" % out[-1], flush=True)
            continue
        res = []
        try:
            for c in checks[:1] if tier == "thorough" else checks:
                rc, o = sh("./vcheck %s --tier %s --no-evidence" % (c, tier), cwd=VERIF)
                viol = re.findall(r"^VIOLATION property=\S+", o, re.M)
                res.append("%s:%s" % (c, "caught" if rc == 1 and viol else "MISSED(exit %d)" % rc))
        finally:
            sh("git -C %s checkout -- ." % REPO)
            subprocess.run("rm -rf %s" % os.path.join(VERIF, "replays", "found"), shell=True)
        if not any("caught" in r for r in res):
            lost += 1
        out.append((d, " ".join(res)))
        print("%-8s %s" % out[-1], flush=True)
    print("seeds no longer detected: %d" % lost)
    return 1 if lost else 0


if __name__ == "__main__":
    sys.exit(main())
