#!/usr/bin/env python3
"""Build one variant of the isa-l_crypto static library out of tree.

  buildlib.py default|fips   -> prints the directory that holds isal.a

The build is keyed by a content hash of every source file under the repository
(VERIF_REPO, default /repo), so an edited working tree always rebuilds and an
unchanged one is reused.  The repository's own Makefile.unx is used with O= and
lib_name= pointing under /verif/build, so nothing is written into the repository.
The hook guard ISAL_CRYPTO_VERIF is always on for these builds.
"""
import fcntl
import hashlib
import os
import shutil
import subprocess
import sys
import time

VERIF = os.path.dirname(os.path.dirname(os.path.abspath(__file__)))
REPO = os.environ.get("VERIF_REPO", "/repo")
BUILD = os.path.join(VERIF, "build", "lib")
SRC_EXT = (".c", ".h", ".asm", ".inc", ".am", ".S", ".mk")
SRC_NAMES = ("Makefile.unx", "make.inc")
SKIP_DIRS = {".git", "aarch64", "autom4te.cache", "build-aux", "bin", ".libs", ".deps", "examples", "tests"}
GUARD = "ISAL_CRYPTO_VERIF"


def source_hash(repo=REPO):
    h = hashlib.sha256()
    files = []
    for root, dirs, names in os.walk(repo):
        dirs[:] = sorted(d for d in dirs if d not in SKIP_DIRS)
        for n in sorted(names):
            if n.endswith(SRC_EXT) or n in SRC_NAMES:
                files.append(os.path.join(root, n))
    for f in files:
        h.update(os.path.relpath(f, repo).encode())
        h.update(b"\0")
        try:
            with open(f, "rb") as fh:
                h.update(hashlib.sha256(fh.read()).digest())
        except OSError:
            h.update(b"?")
    return h.hexdigest()[:16]


def build(variant, repo=REPO, quiet=True):
    assert variant in ("default", "fips")
    os.makedirs(BUILD, exist_ok=True)
    sh = source_hash(repo)
    out = os.path.join(BUILD, "%s-%s" % (variant, sh))
    lock = open(os.path.join(BUILD, ".lock-" + variant), "w")
    fcntl.flock(lock, fcntl.LOCK_EX)
    try:
        if os.path.exists(os.path.join(out, "isal.a")) and os.path.exists(os.path.join(out, ".ok")):
            os.utime(out, None)
            return out
        if os.path.isdir(out):
            shutil.rmtree(out)
        os.makedirs(out)
        cmd = ["make", "-s", "-C", repo, "-f", "Makefile.unx", "-j%d" % (os.cpu_count() or 4),
               "O=" + out, "lib_name=" + os.path.join(out, "isal.a"),
               "D=HAVE_AS_KNOWS_AVX512 " + GUARD, "lib"]
        if variant == "fips":
            cmd.insert(-1, "FIPS_MODE=y")
        t0 = time.time()
        p = subprocess.run(cmd, stdout=subprocess.PIPE, stderr=subprocess.STDOUT, text=True)
        if p.returncode != 0 or not os.path.exists(os.path.join(out, "isal.a")):
            sys.stderr.write(p.stdout[-6000:])
            sys.stderr.write("\nHARNESS-ERROR: library build failed (variant %s)\n" % variant)
            shutil.rmtree(out, ignore_errors=True)
            sys.exit(3)
        with open(os.path.join(out, ".ok"), "w") as fh:
            fh.write("%s %s %.1fs\n" % (variant, sh, time.time() - t0))
        # prune older builds of this variant (keep the 2 most recent)
        olds = sorted((d for d in os.listdir(BUILD) if d.startswith(variant + "-") and d != os.path.basename(out)),
                      key=lambda d: os.path.getmtime(os.path.join(BUILD, d)))
        for d in olds[:-1]:
            shutil.rmtree(os.path.join(BUILD, d), ignore_errors=True)
        return out
    finally:
        fcntl.flock(lock, fcntl.LOCK_UN)
        lock.close()


if __name__ == "__main__":
    v = sys.argv[1] if len(sys.argv) > 1 else "default"
    print(build(v))
