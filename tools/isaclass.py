#!/usr/bin/env python3
"""ISA classes reachable from every function symbol of the freshly built library (oracle input of C12).

  isaclass.py <libdir>  ->  <libdir>/isaclass.json

1. objdump -d -r -M intel of every object: instructions per function region (regions are delimited by symbols of
   type FUNC), call-graph edges from relocations against function symbols and from direct branches into other regions.
2. Every distinct instruction *shape* (mnemonic + operand kinds, memory operands canonicalised) is classified by
   re-assembling it with GNU as under -march=generic64+S_f where S_f = every extension that does not imply f: a shape
   that no longer assembles needs class f.  The implication matrix between extensions is measured with one canonical
   instruction per class, so nothing about binutils' tables is hard-coded here.
3. classes(symbol) = union over the call-graph closure.
"""
import json
import os
import re
import subprocess
import sys
import tempfile

# class name -> (gas extension name, canonical instruction in intel syntax)
CLASSES = [
    ("SSE3", "sse3", "haddps xmm0,xmm1"),
    ("SSSE3", "ssse3", "pshufb xmm0,xmm1"),
    ("SSE4_1", "sse4.1", "pblendvb xmm0,xmm1,xmm0"),
    ("SSE4_2", "sse4.2", "pcmpgtq xmm0,xmm1"),
    ("AESNI", "aes", "aesenc xmm0,xmm1"),
    ("PCLMULQDQ", "pclmul", "pclmulqdq xmm0,xmm1,0"),
    ("SHA", "sha", "sha1msg1 xmm0,xmm1"),
    ("BMI1", "bmi", "andn eax,ebx,ecx"),
    ("BMI2", "bmi2", "rorx rax,rbx,3"),
    ("ADX", "adx", "adcx rax,rbx"),
    ("MOVBE", "movbe", "movbe eax,DWORD PTR [rax]"),
    ("POPCNT", "popcnt", "popcnt eax,ebx"),
    ("LZCNT", "lzcnt", "lzcnt eax,ebx"),
    ("AVX", "avx", "vaddps ymm0,ymm1,ymm2"),
    ("AVX2", "avx2", "vpaddd ymm0,ymm1,ymm2"),
    ("FMA", "fma", "vfmadd132ps ymm0,ymm1,ymm2"),
    ("AVX512F", "avx512f", "vpaddd zmm0,zmm1,zmm2"),
    ("AVX512DQ", "avx512dq", "vpmullq zmm0,zmm1,zmm2"),
    ("AVX512CD", "avx512cd", "vpconflictd zmm0,zmm1"),
    ("AVX512BW", "avx512bw", "vpaddb zmm0,zmm1,zmm2"),
    ("AVX512VL", "avx512vl", "vpaddd ymm16,ymm1,ymm2"),
    ("AVX512IFMA", "avx512ifma", "vpmadd52luq zmm0,zmm1,zmm2"),
    ("AVX512VBMI", "avx512vbmi", "vpermb zmm0,zmm1,zmm2"),
    ("AVX512_VBMI2", "avx512_vbmi2", "vpcompressb zmm0{k1},zmm1"),
    ("GFNI", "gfni", "gf2p8mulb xmm0,xmm1"),
    ("VAES", "vaes", "vaesenc ymm0,ymm1,ymm2"),
    ("VPCLMULQDQ", "vpclmulqdq", "vpclmulqdq ymm0,ymm1,ymm2,0"),
    ("AVX512_VNNI", "avx512_vnni", "vpdpbusd zmm0,zmm1,zmm2"),
    ("AVX512_BITALG", "avx512_bitalg", "vpshufbitqmb k1,zmm1,zmm2"),
    ("AVX512_VPOPCNTDQ", "avx512_vpopcntdq", "vpopcntd zmm0,zmm1"),
]
# always-on low extensions that are part of the x86-64 baseline or not CPUID-dispatched here
BASE_EXT = ["mmx", "sse", "sse2", "cmov", "fxsr", "xsave", "clflush", "cx16", "rdtscp", "pconfig", "ibt", "shstk", "prfchw", "rdrnd", "rdseed"]


def run_as(march, lines):
    """Assemble the given intel-syntax lines; return the set of 0-based line indexes that failed."""
    with tempfile.NamedTemporaryFile("w", suffix=".s", delete=False) as f:
        f.write(".intel_syntax noprefix\n")
        for ln in lines:
            f.write(ln + "\n")
        name = f.name
    p = subprocess.run(["as", "--64", "-march=" + march, "-o", "/dev/null", name], stdout=subprocess.PIPE, stderr=subprocess.PIPE, text=True)
    os.unlink(name)
    bad = set()
    for ln in p.stderr.splitlines():
        m = re.match(r"^[^:]+:(\d+): (Error|Fatal error)", ln)
        if m:
            bad.add(int(m.group(1)) - 2)
    if p.returncode != 0 and not bad and "Error" in p.stderr:
        # e.g. unknown -march extension
        raise RuntimeError(p.stderr[:400])
    return bad


def ext_supported(ext):
    try:
        run_as("generic64+" + ext, ["nop"])
        return True
    except RuntimeError:
        return False


MEM_RE = re.compile(r"\[[^\]]*\]")
SIZE_PTR = r"(?:BYTE|WORD|DWORD|QWORD|XMMWORD|YMMWORD|ZMMWORD|TBYTE|FWORD|OWORD) PTR "


def shape_of(text):
    """Canonical re-assemblable form of an objdump intel-syntax instruction, or None for control flow / data."""
    t = text.split("#")[0].strip()
    t = re.sub(r"<[^>]*>", "", t).strip()
    if not t or t.startswith("(bad)") or t.startswith("."):
        return None
    parts = t.split(None, 1)
    mn = parts[0]
    # prefixes
    while mn in ("rep", "repz", "repnz", "repe", "repne", "lock", "notrack", "bnd", "data16", "addr32", "cs", "ds", "es", "fs", "gs", "ss") and len(parts) > 1:
        parts = parts[1].split(None, 1)
        mn = parts[0]
    ops = parts[1] if len(parts) > 1 else ""
    if mn.startswith("j") or mn in ("call", "ret", "loop", "loope", "loopne", "jmp", "endbr64", "nop", "nopw", "nopl", "xchg", "hlt", "int3", "ud2", "leave", "push", "pop",
                                     "cpuid", "xgetbv", "pause", "syscall", "cld", "std", "cwde", "cdqe", "cqo", "cdq", "cwd", "cbw", "pushf", "popf", "pushfq", "popfq", "movabs",
                                     "stos", "movs", "lods", "scas", "cmps", "fs", "gs"):
        return None
    def memfix(m):
        inner = m.group(0)
        v = re.search(r"([xyz]mm\d+)\*(\d)", inner)
        if v:
            return "[rax+%s*%s]" % (v.group(1), v.group(2))
        return "[rax]"
    ops = re.sub(r"(cs|ds|es|fs|gs|ss):", "", ops)
    ops = MEM_RE.sub(memfix, ops)
    ops = re.sub(r"0x[0-9a-f]+", "1", ops)          # immediates: value does not matter for the ISA class
    ops = re.sub(r"\b\d+\b(?!\])", "1", ops) if not re.search(r"mm\d|k\d|\{", ops) else ops
    return (mn + " " + ops).strip()


def main(libdir):
    # only the members of the archive: the build directory also holds harness objects (symtab.o, the combined,
    # section-renamed copy of the library made for C18) whose merged text would smear the per-function regions
    members = set(subprocess.run(["ar", "t", os.path.join(libdir, "isal.a")], stdout=subprocess.PIPE, text=True, check=True).stdout.split())
    objs = sorted(os.path.join(libdir, f) for f in os.listdir(libdir) if f.endswith(".o") and f in members)
    if len(objs) != len(members):
        raise RuntimeError("archive members without an object file in %s: %s" % (libdir, sorted(members - set(os.path.basename(o) for o in objs))[:5]))
    # ---- function symbols
    funcs = {}      # obj -> sorted list of (addr, name) in .text
    global_of = {}  # global function name -> obj
    for o in objs:
        t = subprocess.run(["objdump", "-t", o], stdout=subprocess.PIPE, text=True).stdout
        lst = []
        for ln in t.splitlines():
            m = re.match(r"^([0-9a-f]{16}) (.{7}) (\S+)\t([0-9a-f]+) (?:\.hidden |\.internal |\.protected )?(\S+)$", ln)
            if not m:
                continue
            addr, flags, sec, size, name = m.groups()
            is_global = flags[0] in "gu!"
            # region starts: symbols typed FUNC, and global text labels (several .asm files export entry points without a type)
            if not sec.startswith(".text") or not ("F" in flags or is_global):
                continue
            lst.append((int(addr, 16), sec, name))
            if is_global:
                global_of.setdefault(name, o)
        funcs[o] = sorted(lst)
    # ---- disassembly
    region_insn = {}   # (obj, name) -> set(shape)
    edges = {}         # (obj, name) -> set of target names (global) or (obj, name)
    all_shapes = {}
    for o in objs:
        d = subprocess.run(["objdump", "-d", "-r", "-M", "intel", "--no-show-raw-insn", o], stdout=subprocess.PIPE, text=True).stdout
        sec = None
        fl = funcs[o]
        cur = None
        for ln in d.splitlines():
            m = re.match(r"^Disassembly of section (\S+):", ln)
            if m:
                sec = m.group(1)
                cur = None
                continue
            m = re.match(r"^([0-9a-f]{16}) <([^>]+)>:$", ln)
            if m:
                a = int(m.group(1), 16)
                # does a FUNC symbol start here?
                for (fa, fs, fn) in fl:
                    if fa == a and fs == sec:
                        cur = (o, fn)
                        region_insn.setdefault(cur, set())
                        edges.setdefault(cur, set())
                        break
                continue
            m = re.match(r"^\s+([0-9a-f]+):\t(.*)$", ln)
            if m and cur is not None:
                text = m.group(2)
                sh = shape_of(text)
                if sh:
                    region_insn[cur].add(sh)
                    all_shapes[sh] = None
                # direct branch into another region of this object
                bm = re.match(r"^(?:j\w+|call|jmp)\s+([0-9a-f]+) <", text)
                if bm:
                    ta = int(bm.group(1), 16)
                    tgt = None
                    for (fa, fs, fn) in fl:
                        if fs == sec and fa <= ta:
                            tgt = fn
                    if tgt and (o, tgt) != cur:
                        edges[cur].add((o, tgt))
                continue
            m = re.match(r"^\s+[0-9a-f]+: R_X86_64_\w+\s+(\S+?)(?:[+-]0x[0-9a-f]+)?$", ln)
            if m and cur is not None:
                edges[cur].add(m.group(1))
    # ---- classification
    classes = [(c, e, ins) for (c, e, ins) in CLASSES if ext_supported(e)]
    base = [e for e in BASE_EXT if ext_supported(e)]
    exts = [e for (_, e, _) in classes]
    # implication matrix: does enabling only g make canonical(f) assemble?
    implies = {}
    for (cg, g, _) in classes:
        bad = run_as("generic64+" + "+".join(base + [g]), [ins for (_, _, ins) in classes])
        implies[g] = {classes[i][1] for i in range(len(classes)) if i not in bad}
    shapes = sorted(all_shapes)
    march_all = "generic64+" + "+".join(base + exts)
    unassemblable = run_as(march_all, shapes)
    need = {sh: set() for sh in shapes}
    for (cf, f, _) in classes:
        allowed = [g for g in exts if f not in implies[g]]
        bad = run_as("generic64+" + "+".join(base + allowed), shapes)
        for i in bad - unassemblable:
            need[shapes[i]].add(cf)
    # ---- closure
    def resolve(t):
        if isinstance(t, tuple):
            return t
        o = global_of.get(t)
        return (o, t) if o else None
    direct = {k: set().union(*[need[sh] for sh in v]) if v else set() for k, v in region_insn.items()}
    closure = {}
    for k in region_insn:
        seen = {k}
        stack = [k]
        acc = set()
        while stack:
            n = stack.pop()
            acc |= direct.get(n, set())
            for t in edges.get(n, ()):
                r = resolve(t)
                if r and r in region_insn and r not in seen:
                    # do not follow into dispatched entry points: their own binding is judged separately
                    if (r[1] + "_dispatched") in global_of or r[1].endswith("_mbinit") or r[1].endswith("_dispatch_init"):
                        continue
                    seen.add(r)
                    stack.append(r)
        closure[k] = (acc, len(seen))
    out = {"classes": [c for (c, _, _) in classes], "implies": {g: sorted(v) for g, v in implies.items()},
           "shapes": len(shapes), "unassemblable_shapes": len(unassemblable), "unassemblable_examples": [shapes[i] for i in sorted(unassemblable)[:20]],
           "symbols": {}}
    for (o, n), (acc, cnt) in closure.items():
        if n in global_of and global_of[n] == o:
            out["symbols"][n] = {"classes": sorted(acc), "regions": cnt, "object": os.path.basename(o)}
    json.dump(out, open(os.path.join(libdir, "isaclass.json"), "w"), indent=0)
    return out


if __name__ == "__main__":
    r = main(sys.argv[1])
    print("shapes", r["shapes"], "unassemblable", r["unassemblable_shapes"], "symbols", len(r["symbols"]))
